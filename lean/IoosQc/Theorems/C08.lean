/-
  C08 — climatology_test.  The code loops over the members of the configuration in order and,
  for each, performs three masked assignments FAIL / SUSPECT / GOOD on the points the member
  matches (time span inclusive, depth span inclusive; a depth-banded member is skipped when no
  depth was supplied at all).  The property sentence: every present point gets the flag of the
  LAST member covering it, UNKNOWN when no member does; a missing value is MISSING.
  Proven for any member list (any length, overlapping), any series, any depth pattern, and
  parametrically in the calendar function `periodOf`.
-/
import IoosQc.Lemmas.Basic
set_option linter.unusedSimpArgs false
set_option linter.unusedVariables false

namespace IoosQc

/-! ### A fold of guarded overwrites is "the last one whose guard holds" -/

theorem foldl_last_wins {α β : Type} (c : α → Bool) (g : α → β) (acc : β) (ms : List α) :
    ms.foldl (fun acc m => if c m then g m else acc) acc =
      (match (ms.filter c).getLast? with
       | none => acc
       | some m => g m) := by
  induction ms generalizing acc with
  | nil => rfl
  | cons m ms ih =>
    rw [List.foldl_cons, ih]
    cases hc : c m with
    | false => simp [List.filter_cons, hc]
    | true =>
      simp only [List.filter_cons, hc, if_true, List.getLast?_cons]
      cases (ms.filter c).getLast? <;> simp

/-! ### One member at one point -/

/-- The code's match mask is the property's "covers". -/
theorem memberMatches_eq_covers (periodOf : Period → Int → Int) (m : Member) (t : Int) (z : V) :
    memberMatches m (memberTime periodOf m t) z = memberCovers periodOf m t z := by
  unfold memberMatches memberCovers inside
  cases m.zspan with
  | none => simp [Bool.decide_and]
  | some zs => cases z <;> simp [Bool.decide_and]

/-- The three ordered assignments under a true mask give the member's classification. -/
theorem overrides_classify (m : Member) (acc : Flag) (v : Rat) :
    overrides acc
      [ ((match m.fspan with | some f => outside (some v) f | none => false), .fail),
        ((!(match m.fspan with | some f => outside (some v) f | none => false)
            && outside (some v) m.vspan), .suspect),
        ((!(match m.fspan with | some f => outside (some v) f | none => false)
            && !outside (some v) m.vspan), .good) ] = classify m v := by
  unfold overrides classify outside vlt vgt
  cases m.fspan with
  | none =>
    by_cases h : v < m.vspan.1 ∨ m.vspan.2 < v
    · simp [h] <;> grind
    · simp [h] <;> grind
  | some f =>
    by_cases h1 : v < f.1 ∨ f.2 < v
    · simp [h1] <;> grind
    · by_cases h : v < m.vspan.1 ∨ m.vspan.2 < v
      · simp [h1, h] <;> grind
      · simp [h1, h] <;> grind

/-- Key pointwise fact: at a present value, a covering member overwrites with its
    classification whatever was there, a non-covering (or skipped) member leaves the flag. -/
theorem memberApply_present (periodOf : Period → Int → Int) (m : Member) (acc : Flag) (t : Int)
    (v : Rat) (z : V) (noDepth : Bool) (hz : noDepth = true → z = none) :
    memberApply m acc (memberTime periodOf m t) (some v) z noDepth =
      if memberCovers periodOf m t z then classify m v else acc := by
  unfold memberApply
  by_cases hskip : (m.zspan.isSome && noDepth) = true
  · -- skipped: a depth-banded member, and no depth at all, so `z` is missing here
    rw [if_pos hskip]
    simp only [Bool.and_eq_true] at hskip
    have hz' := hz hskip.2
    have hc : memberCovers periodOf m t z = false := by
      unfold memberCovers
      cases hzs : m.zspan with
      | none => simp [hzs] at hskip
      | some zs => simp [hz']
    simp [hc]
  · rw [if_neg hskip]
    simp only [Option.isSome_some, Bool.or_true, Bool.and_true, memberMatches_eq_covers]
    cases hc : memberCovers periodOf m t z with
    | false => simp [overrides]
    | true =>
      simp only [Bool.true_and, if_true]
      exact overrides_classify m acc v

/-- `z.all isNone` means every depth lookup is missing (also beyond the end). -/
theorem getV_of_all_none (z : List V) (i : Nat) (h : z.all Option.isNone = true) :
    getV z i = none := by
  unfold getV
  rw [List.getD_eq_getElem?_getD]
  cases hi : z[i]? with
  | none => rfl
  | some a =>
    have hmem : a ∈ z := List.mem_of_getElem? hi
    have := (List.all_eq_true.1 h) a hmem
    cases a <;> simp_all

/-! ### The whole member loop at one point -/

/-- Missing value ⇒ MISSING, whatever the members. -/
theorem climAt_missing (periodOf : Period → Int → Int) (ms : List Member) (noDepth : Bool)
    (t : Int) (z : V) : climAt periodOf ms noDepth t none z = .missing := by
  simp [climAt, overrides]

/-- Present value ⇒ classification by the last covering member, UNKNOWN if none. -/
theorem climAt_present (periodOf : Period → Int → Int) (ms : List Member) (noDepth : Bool)
    (t : Int) (v : Rat) (z : V) (hz : noDepth = true → z = none) :
    climAt periodOf ms noDepth t (some v) z =
      (match (ms.filter fun m => memberCovers periodOf m t z).getLast? with
       | none => .unknown
       | some m => classify m v) := by
  have hf : (fun (acc : Flag) (m : Member) =>
        memberApply m acc (match m.period with
          | some p => ((periodOf p t : Int) : Rat) | none => ((t : Int) : Rat)) (some v) z noDepth)
      = fun acc m => if memberCovers periodOf m t z then classify m v else acc := by
    funext acc m
    exact memberApply_present periodOf m acc t v z noDepth hz
  have hunf : climAt periodOf ms noDepth t (some v) z =
      overrides (ms.foldl (fun (acc : Flag) (m : Member) =>
        memberApply m acc (match m.period with
          | some p => ((periodOf p t : Int) : Rat) | none => ((t : Int) : Rat)) (some v) z noDepth)
        (overrides .unknown [((some v : V).isNone, .missing)]))
        [((some v : V).isNone, .missing)] := rfl
  rw [hunf, hf, foldl_last_wins]
  cases (ms.filter fun m => memberCovers periodOf m t z).getLast? <;> rfl

/-- Pointwise conformance. -/
theorem climAt_spec (periodOf : Period → Int → Int) (ms : List Member) (noDepth : Bool)
    (t : Int) (x z : V) (hz : noDepth = true → z = none) :
    climAt periodOf ms noDepth t x z ∈ climSpecAt periodOf ms t x z := by
  cases x with
  | none => simp [climAt_missing, climSpecAt]
  | some v =>
    rw [climAt_present periodOf ms noDepth t v z hz]
    unfold climSpecAt
    cases (ms.filter fun m => memberCovers periodOf m t z).getLast? <;> simp

/-- C08: climatology_test model = "flag of the LAST matching member, UNKNOWN if none", for any
    member list (any length, overlapping), any series, any depth pattern, parametric in the
    calendar function. -/
theorem C08_climatology (periodOf : Period → Int → Int) (ms : List Member)
    (inp : List V) (t : List Int) (z : List V)
    (h : (TestCall.climatology ms inp t z).inDom = true) :
    conforms ((TestCall.climatology ms inp t z).spec periodOf)
             ((TestCall.climatology ms inp t z).run periodOf).toObs = true := by
  simp only [TestCall.spec, TestCall.run, climatologyTest]
  exact conforms_flags_range inp.length _ _
    (fun i _ => climAt_spec periodOf ms _ _ _ _ (fun hall => getV_of_all_none z i hall))

/-! ### Readable corollaries -/

/-- The flag the model assigns at position `i`. -/
def climFlagAt (periodOf : Period → Int → Int) (ms : List Member)
    (inp : List V) (t : List Int) (z : List V) (i : Nat) : Flag :=
  climAt periodOf ms (z.all Option.isNone) (t.getD i 0) (getV inp i) (getV z i)

theorem climatologyTest_eq (periodOf : Period → Int → Int) (ms : List Member)
    (inp : List V) (t : List Int) (z : List V) :
    climatologyTest periodOf ms inp t z =
      .ok ((List.range inp.length).map (climFlagAt periodOf ms inp t z)) := rfl

/-- The flag at `i` for a present value, in closed form. -/
theorem climFlagAt_present (periodOf : Period → Int → Int) (ms : List Member)
    (inp : List V) (t : List Int) (z : List V) (i : Nat) (v : Rat) (hx : getV inp i = some v) :
    climFlagAt periodOf ms inp t z i =
      (match (ms.filter fun m => memberCovers periodOf m (t.getD i 0) (getV z i)).getLast? with
       | none => .unknown
       | some m => classify m v) := by
  unfold climFlagAt
  rw [hx]
  exact climAt_present periodOf ms _ _ v _ (fun hall => getV_of_all_none z i hall)

theorem climFlagAt_missing (periodOf : Period → Int → Int) (ms : List Member)
    (inp : List V) (t : List Int) (z : List V) (i : Nat) (hx : getV inp i = none) :
    climFlagAt periodOf ms inp t z i = .missing := by
  unfold climFlagAt; rw [hx]; exact climAt_missing ..

/-- (a) no members ⇒ every present point UNKNOWN (and every missing one MISSING). -/
theorem C08_no_members (periodOf : Period → Int → Int) (inp : List V) (t : List Int)
    (z : List V) :
    climatologyTest periodOf [] inp t z =
      .ok ((List.range inp.length).map fun i =>
        match getV inp i with | some _ => Flag.unknown | none => Flag.missing) := by
  rw [climatologyTest_eq]
  congr 1
  apply List.map_congr_left
  intro i _
  cases hx : getV inp i with
  | none => exact climFlagAt_missing periodOf [] inp t z i hx
  | some v => rw [climFlagAt_present periodOf [] inp t z i v hx]; rfl

/-- No member covers the point ⇒ UNKNOWN. -/
theorem C08_uncovered (periodOf : Period → Int → Int) (ms : List Member)
    (inp : List V) (t : List Int) (z : List V) (i : Nat) (v : Rat) (hx : getV inp i = some v)
    (hnone : ∀ m ∈ ms, memberCovers periodOf m (t.getD i 0) (getV z i) = false) :
    climFlagAt periodOf ms inp t z i = .unknown := by
  rw [climFlagAt_present periodOf ms inp t z i v hx]
  have : (ms.filter fun m => memberCovers periodOf m (t.getD i 0) (getV z i)) = [] := by
    simp [List.filter_eq_nil_iff]; exact hnone
  rw [this]; rfl

/-- (b) bounds are inclusive: a value equal to either end of the value span of the last
    matching member (with no fail span) is GOOD. -/
theorem C08_bounds_inclusive (periodOf : Period → Int → Int) (ms : List Member)
    (inp : List V) (t : List Int) (z : List V) (i : Nat) (v : Rat) (m : Member)
    (hx : getV inp i = some v)
    (hlast : (ms.filter fun m => memberCovers periodOf m (t.getD i 0) (getV z i)).getLast?
              = some m)
    (hf : m.fspan = none) (hsorted : m.vspan.1 ≤ m.vspan.2)
    (hv : v = m.vspan.1 ∨ v = m.vspan.2) :
    climFlagAt periodOf ms inp t z i = .good := by
  rw [climFlagAt_present periodOf ms inp t z i v hx, hlast]
  simp only [classify, hf]
  rcases hv with hv | hv <;> subst hv <;> simp <;> grind

/-- The same with a fail span: a value on the boundary of both spans is GOOD, and a value on
    the boundary of the fail span is never FAIL. -/
theorem C08_fail_bounds_inclusive (m : Member) (f : Rat × Rat) (hf : m.fspan = some f)
    (hsorted : f.1 ≤ f.2) :
    classify m f.1 ≠ .fail ∧ classify m f.2 ≠ .fail := by
  simp only [classify, hf]
  constructor <;> split <;> simp_all <;> grind

/-- The time span and the depth span are inclusive as well. -/
theorem C08_span_inclusive (periodOf : Period → Int → Int) (m : Member) (t : Int) (zs : Rat × Rat)
    (hz : m.zspan = some zs) (hzs : zs.1 ≤ zs.2)
    (ht : memberTime periodOf m t = m.tspan.1 ∨ memberTime periodOf m t = m.tspan.2)
    (hts : m.tspan.1 ≤ m.tspan.2) :
    memberCovers periodOf m t (some zs.1) = true ∧ memberCovers periodOf m t (some zs.2) = true := by
  unfold memberCovers
  simp only [hz]
  rcases ht with ht | ht <;> rw [ht] <;> simp <;> grind

/-- (c) order matters only through "last": appending a member that covers no point of the
    series changes nothing. -/
theorem C08_append_noncovering (periodOf : Period → Int → Int) (ms : List Member) (m : Member)
    (inp : List V) (t : List Int) (z : List V)
    (hm : ∀ i, i < inp.length → memberCovers periodOf m (t.getD i 0) (getV z i) = false) :
    climatologyTest periodOf (ms ++ [m]) inp t z = climatologyTest periodOf ms inp t z := by
  rw [climatologyTest_eq, climatologyTest_eq]
  congr 1
  apply List.map_congr_left
  intro i hi
  have hi' : i < inp.length := List.mem_range.1 hi
  cases hx : getV inp i with
  | none => rw [climFlagAt_missing _ _ _ _ _ _ hx, climFlagAt_missing _ _ _ _ _ _ hx]
  | some v =>
    rw [climFlagAt_present _ _ _ _ _ _ v hx, climFlagAt_present _ _ _ _ _ _ v hx]
    have hmi := hm i hi'
    simp only [List.filter_append, List.filter_cons, List.filter_nil, hmi, Bool.false_eq_true,
      if_false, List.append_nil]

/-- … whereas an appended member decides every present point it covers (last wins). -/
theorem C08_append_covering (periodOf : Period → Int → Int) (ms : List Member) (m : Member)
    (inp : List V) (t : List Int) (z : List V) (i : Nat) (v : Rat) (hx : getV inp i = some v)
    (hm : memberCovers periodOf m (t.getD i 0) (getV z i) = true) :
    climFlagAt periodOf (ms ++ [m]) inp t z i = classify m v := by
  rw [climFlagAt_present _ _ _ _ _ _ v hx]
  simp only [List.filter_append, List.filter_cons, List.filter_nil, hm, if_true,
    List.getLast?_concat]

/-- A depth-banded member never applies where the depth is missing — in particular when no
    depth was given at all. -/
theorem C08_depth_required (periodOf : Period → Int → Int) (m : Member) (t : Int)
    (hz : m.zspan.isSome = true) : memberCovers periodOf m t none = false := by
  unfold memberCovers
  cases h : m.zspan with
  | none => simp [h] at hz
  | some zs => simp

/-- Non-vacuity: two overlapping members on the real calendar (`IoosQc.periodOf`, months).
    Member 1: months 1–6, value span [0,10], fail span [−5,20], no depth band.
    Member 2: months 3–4, value span [2,4], depth band [0,50].
    GOOD / SUSPECT / FAIL from member 1 in January; in March member 2 (the last) decides where
    the depth is in its band — inclusive at depth 50 and value 4 — and overrules member 1's GOOD
    with SUSPECT; at depth 60 member 1 decides again; missing ⇒ MISSING; September ⇒ UNKNOWN. -/
example : (climatologyTest IoosQc.periodOf
      [ ⟨(1, 6), (0, 10), some (-5, 20), none, some .month⟩,
        ⟨(3, 4), (2, 4), none, some (0, 50), some .month⟩ ]
      [some 5, some 11, some 25, some 4, some 5, some 3, none, some 1]
      [0, 86400, 2*86400, 70*86400, 71*86400, 72*86400, 73*86400, 250*86400]
      [some 10, some 10, none, some 50, some 10, some 60, some 10, some 10]).toObs
    = .flags [1, 3, 4, 1, 3, 1, 9, 2] := by
  decide +kernel

/-- Non-vacuity of the `noDepth` skip: no depth at all ⇒ the depth-banded member is skipped and
    the earlier member decides. -/
example : (climatologyTest IoosQc.periodOf
      [ ⟨(1, 6), (0, 10), none, none, some .month⟩,
        ⟨(1, 6), (2, 4), none, some (0, 50), some .month⟩ ]
      [some 5, some 11] [0, 86400] [none, none]).toObs = .flags [1, 3] := by
  decide +kernel

end IoosQc
