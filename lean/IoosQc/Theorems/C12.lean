/-
  C12 — attenuated_signal_test.  The code's ordered assignments
  GOOD / SUSPECT / UNKNOWN / FAIL / MISSING resolve to the property sentence
  "UNKNOWN if the statistic is undefined, else FAIL if below the fail threshold, else SUSPECT if
  below the suspect threshold, else GOOD; MISSING for a missing value", for both check types,
  with and without `test_period`, and for every pair of thresholds (also fail > suspect).
-/
import IoosQc.Lemmas.Basic
set_option linter.unusedSimpArgs false
set_option linter.unusedVariables false

namespace IoosQc

/-- For a defined statistic `stat ≥ θ` is the negation of `stat < θ`. -/
theorem Stat.ge_eq_not_lt (s : Stat) (θ : Rat) (h : s.isUndef = false) :
    s.ge θ = !s.lt θ := by
  cases s with
  | undef => simp [Stat.isUndef] at h
  | lin v =>
    simp only [Stat.ge, Stat.lt]
    by_cases h1 : θ ≤ v <;> simp [h1] <;> grind
  | var v =>
    simp only [Stat.ge, Stat.lt]
    by_cases h1 : θ ≤ 0 <;> by_cases h2 : θ * θ ≤ v <;> simp [h1, h2] <;> grind

/-- An undefined statistic is neither below nor at-or-above any threshold. -/
theorem Stat.undef_cmp (θ : Rat) : Stat.undef.lt θ = false ∧ Stat.undef.ge θ = false := by
  simp [Stat.lt, Stat.ge]

/-- Pointwise: the ordered assignments give the flag of the property sentence. -/
theorem attenAt_spec (s : Stat) (sus fail : Rat) (x : V) :
    attenAt s sus fail x ∈ attenSpecAt s sus fail x := by
  cases x with
  | none => simp [attenAt, attenSpecAt, overrides]
  | some v =>
    cases hs : s.isUndef with
    | true =>
      cases s <;> simp [Stat.isUndef] at hs
      simp [attenAt, attenSpecAt, overrides, Stat.isUndef, Stat.lt, Stat.ge]
    | false =>
      have hge := Stat.ge_eq_not_lt s sus hs
      simp only [attenAt, attenSpecAt, overrides, hs, hge, List.foldl_cons, List.foldl_nil]
      cases h1 : s.lt fail <;> cases h2 : s.lt sus <;> simp

/-- C12: the model's output conforms to the property sentence for every call. -/
theorem C12_atten (checkType : String) (inp : List V) (ts : List Int) (sus fail : Rat)
    (period : Option Rat) (minObs : Option Nat) (minPeriod : Option Rat) :
    conforms (attenSpec checkType inp ts sus fail period minObs minPeriod)
             (attenuatedTest checkType inp ts sus fail period minObs minPeriod).toObs = true := by
  unfold attenSpec attenuatedTest
  generalize (if checkType = "std" then some CheckType.std
         else if checkType = "range" then some CheckType.range else none) = oct
  cases oct with
  | none => simp [conforms, Res.toObs, throw, throwThe, MonadExceptOf.throw]
  | some ct =>
    cases period with
    | none =>
      exact conforms_flags_map inp _ _ (fun x _ => attenAt_spec (wholeStat ct inp) sus fail x)
    | some P =>
      exact conforms_flags_range inp.length _ _ (fun i _ => attenAt_spec _ sus fail _)

/-! ### The statistics -/

/-- the windowed statistic only looks at the trailing window (t_i − P, t_i] -/
theorem trailing_mem (ts : List Int) (P : Rat) (i j : Nat) :
    j ∈ trailing ts P i ↔
      j ≤ i ∧ ((ts.getD i 0 : Int) : Rat) - P < ((ts.getD j 0 : Int) : Rat) := by
  unfold trailing
  simp only [List.mem_filter, List.mem_range, decide_eq_true_eq]
  constructor
  · rintro ⟨h1, h2⟩; exact ⟨by omega, h2⟩
  · rintro ⟨h1, h2⟩; exact ⟨by omega, h2⟩

/-- The window indices are listed in increasing order without repetition. -/
theorem trailing_sublist (ts : List Int) (P : Rat) (i : Nat) :
    (trailing ts P i).Sublist (List.range (i + 1)) := by
  unfold trailing; exact List.filter_sublist

/-- With a positive period the window always contains the point itself. -/
theorem trailing_self (ts : List Int) (P : Rat) (i : Nat) (hP : 0 < P) :
    i ∈ trailing ts P i := by
  rw [trailing_mem]; refine ⟨Nat.le_refl _, ?_⟩; grind

/-- Too few present observations in the window ⇒ undefined statistic. -/
theorem windowStat_few (ct : CheckType) (minp : Nat) (xs : List V) (ts : List Int) (P : Rat)
    (i : Nat) (hfew : (present ((trailing ts P i).map (getV xs))).length < minp) :
    windowStat ct minp xs ts P i = .undef := by
  unfold windowStat; simp [hfew]

/-- `range` check: one missing value in the window poisons the statistic (`np.ptp` on NaN). -/
theorem windowStat_range_poisoned (minp : Nat) (xs : List V) (ts : List Int) (P : Rat) (i : Nat)
    (h : (present ((trailing ts P i).map (getV xs))).length
          < ((trailing ts P i).map (getV xs)).length) :
    windowStat .range minp xs ts P i = .undef := by
  unfold windowStat; simp only []; split
  · rfl
  · simp [h]

/-- `std` check: fewer than two present values (ddof = 1) ⇒ undefined. -/
theorem windowStat_std_single (minp : Nat) (xs : List V) (ts : List Int) (P : Rat) (i : Nat)
    (h : (present ((trailing ts P i).map (getV xs))).length < 2) :
    windowStat .std minp xs ts P i = .undef := by
  unfold windowStat; simp only []; split
  · rfl
  · simp [h]

/-- Whole-series statistic of a series with no present value is undefined. -/
theorem wholeStat_all_missing (ct : CheckType) (xs : List V) (h : present xs = []) :
    wholeStat ct xs = .undef := by
  unfold wholeStat; simp [h]

/-- An undefined statistic gives UNKNOWN at every present point, whatever the thresholds. -/
theorem attenAt_undef (sus fail : Rat) (x : Rat) : attenAt .undef sus fail (some x) = .unknown := by
  simp [attenAt, overrides, Stat.isUndef, Stat.lt, Stat.ge]

/-- fewer present observations than required ⇒ UNKNOWN for a present point -/
theorem C12_min_obs (ct : CheckType) (minp : Nat) (xs : List V) (ts : List Int)
    (P sus fail : Rat) (i : Nat) (x : Rat)
    (hx : getV xs i = some x)
    (hfew : (present ((trailing ts P i).map (getV xs))).length < minp) :
    attenAt (windowStat ct minp xs ts P i) sus fail (some x) = .unknown := by
  rw [windowStat_few ct minp xs ts P i hfew]; exact attenAt_undef sus fail x

/-- FAIL wins even when fail_threshold > suspect_threshold -/
theorem C12_fail_wins (s : Stat) (sus fail : Rat) (x : Rat) (h : s.lt fail = true) :
    attenAt s sus fail (some x) = .fail := by
  simp [attenAt, overrides, h]

/-- A missing value is MISSING whatever the statistic. -/
theorem C12_missing (s : Stat) (sus fail : Rat) : attenAt s sus fail none = .missing := by
  simp [attenAt, overrides]

/-- Defined statistic, not below either threshold ⇒ GOOD. -/
theorem C12_good (s : Stat) (sus fail : Rat) (x : Rat) (hs : s.isUndef = false)
    (h1 : s.lt fail = false) (h2 : s.lt sus = false) : attenAt s sus fail (some x) = .good := by
  have := attenAt_spec s sus fail (some x)
  simpa [attenSpecAt, hs, h1, h2] using this

/-- Defined statistic below the suspect but not the fail threshold ⇒ SUSPECT. -/
theorem C12_suspect (s : Stat) (sus fail : Rat) (x : Rat)
    (h1 : s.lt fail = false) (h2 : s.lt sus = true) : attenAt s sus fail (some x) = .suspect := by
  have hs : s.isUndef = false := by cases s <;> simp_all [Stat.isUndef, Stat.lt]
  have := attenAt_spec s sus fail (some x)
  simpa [attenSpecAt, hs, h1, h2] using this

/-- unknown check_type ⇒ ValueError -/
theorem C12_check_type (ct : String) (inp : List V) (ts : List Int) (sus fail : Rat)
    (p : Option Rat) (mo : Option Nat) (mp : Option Rat) (h1 : ct ≠ "std") (h2 : ct ≠ "range") :
    attenuatedTest ct inp ts sus fail p mo mp = .error .value := by
  simp [attenuatedTest, h1, h2, throw, throwThe, MonadExceptOf.throw]

/-- Non-vacuity: a rolling `range` check (window 120 s = two points) exercising FAIL and GOOD;
    the first point alone has range 0 < 1/2 ⇒ FAIL, the final jump to 8 ⇒ GOOD. -/
example : (attenuatedTest "range"
      [some 0, some 2, some 0, some 2, some 0, some 0, some 0, some 0, some 8]
      [0, 60, 120, 180, 240, 300, 360, 420, 480] 1 (1/2) (some 120) none none).toObs
    = .flags [4, 1, 1, 1, 1, 4, 4, 4, 1] := by
  decide +kernel

/-- Non-vacuity: SUSPECT, UNKNOWN (window poisoned by a missing value) and MISSING occur too. -/
example : (attenuatedTest "range"
      [some 0, some (3/4), none, some 0, some 5]
      [0, 60, 120, 180, 240] 1 (1/2) (some 120) none none).toObs
    = .flags [4, 3, 9, 2, 1] := by
  decide +kernel

end IoosQc
