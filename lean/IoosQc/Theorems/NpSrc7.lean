/-
  IoosQc.Theorems.NpSrc7 — `PandasStore.save`: the source-shaped transcription equals `storeSave`.

    C19_src_save    NpSrc.save rs ⟨"time", "z", "lat", "lon"⟩ wd wa inc exc = storeSave wd wa inc exc rs
-/
import IoosQc.Model.NpStore
set_option linter.unusedSimpArgs false
set_option linter.unusedVariables false

namespace IoosQc.NpSrc

theorem forIn_id_eq_foldl {α β : Type} (l : List α) (init : β) (f : α → β → Id (ForInStep β)) (g : α → β → β)
    (h : ∀ a b, f a b = pure (ForInStep.yield (g a b))) : forIn l init f = pure (l.foldl (fun b a => g a b) init) := by
  induction l generalizing init with
  | nil => simp
  | cons a l ih => simp [List.forIn_cons, h, ih]

theorem column_eq (r : StoreRes) : column_from_collected_result r = columnName r := by
  simp [column_from_collected_result, columnName, rawName, dotted, String.append_assoc]

def defaultAxes : Axes := ⟨"time", "z", "lat", "lon"⟩

def incSkip (inc : Option (List String)) (r : StoreRes) : Bool :=
  match inc with | some l => !(l.contains r.fn) && !(l.contains r.stream) && !(l.contains r.test) | none => false
def excSkip (exc : Option (List String)) (r : StoreRes) : Bool :=
  match exc with | some l => l.contains r.fn || l.contains r.stream || l.contains r.test | none => false

theorem kept_eq (inc exc : Option (List String)) (r : StoreRes) : kept inc exc r = (!(incSkip inc r) && !(excSkip exc r)) := by
  cases inc <;> cases exc <;> simp [kept, listed, incSkip, excSkip]

/-- one axis statement of the loop body -/
def axStep (wa : Bool) (n : String) (v : Option Nat) (df : Frame) : Frame :=
  match v with
  | some x => if wa = true && !(df.has n) then setCol df n x else df
  | none => df

/-- the statements after the four axis statements -/
def tailStep (wd : Bool) (inc exc : Option (List String)) (r : StoreRes) (df : Frame) : Frame :=
  if (match inc with
      | some l => !(l.contains r.fn) && !(l.contains r.stream) && !(l.contains r.test)
      | none => false) then df
  else
  if (match exc with
      | some l => l.contains r.fn || l.contains r.stream || l.contains r.test
      | none => false) then df
  else
  let df := if wd && !(df.has r.stream) && r.stream != "" then setCol df r.stream r.data else df
  let column_name := column_from_collected_result r
  let df := if !(df.has column_name) then setCol df column_name r.results else df
  df

theorem save_body (rs : List StoreRes) (wd wa : Bool) (inc exc : Option (List String)) :
    save rs defaultAxes wd wa inc exc
      = rs.foldl (fun df r => tailStep wd inc exc r
          (axStep wa "lat" r.lat (axStep wa "lon" r.lon (axStep wa "z" r.zinp (axStep wa "time" r.tinp df))))) [] := rfl

theorem axStep_eq (wa : Bool) (n : String) (v : Option Nat) (df : Frame) :
    axStep wa n v df = if wa then addIfAbsent df n v else df := by
  cases wa <;> cases v <;> simp [axStep, addIfAbsent, setCol]
  cases df.has n <;> simp

theorem tailStep_eq (wd : Bool) (inc exc : Option (List String)) (r : StoreRes) (df : Frame) :
    tailStep wd inc exc r df
      = if !(kept inc exc r) then df
        else addIfAbsent (if wd && r.stream != "" then addIfAbsent df r.stream (some r.data) else df) (columnName r) (some r.results) := by
  have hi : (match inc with
      | some l => !(l.contains r.fn) && !(l.contains r.stream) && !(l.contains r.test)
      | none => false) = incSkip inc r := by cases inc <;> rfl
  have he : (match exc with
      | some l => l.contains r.fn || l.contains r.stream || l.contains r.test
      | none => false) = excSkip exc r := by cases exc <;> rfl
  unfold tailStep
  rw [hi, he, kept_eq, column_eq]
  cases incSkip inc r <;> cases excSkip exc r <;> simp only [Bool.not_false, Bool.not_true, Bool.and_true, Bool.and_false,
    Bool.false_eq_true, if_false, if_true]
  cases wd <;> cases hs : df.has r.stream <;> simp [addIfAbsent, setCol, hs] <;> (repeat' split) <;> simp_all

/-- The translator's `PandasStore.save` (default axis names) is the model of C19. -/
theorem C19_src_save (rs : List StoreRes) (wd wa : Bool) (inc exc : Option (List String)) :
    save rs defaultAxes wd wa inc exc = storeSave wd wa inc exc rs := by
  rw [save_body]
  unfold storeSave
  congr 1
  funext df r
  simp only [tailStep_eq, axStep_eq, saveStep]
  cases wa <;> simp

end IoosQc.NpSrc
