/-
  C19 — the pandas store writes one aligned, uniquely named column per test result.
-/
import IoosQc.Props.C19
set_option linter.unusedSimpArgs false
set_option linter.unusedVariables false

namespace IoosQc

/-! ### cf_safe_name, column names, include / exclude -/

theorem isSafeChar_underscore : isSafeChar '_' = true := by decide
theorem isSafeChar_v : isSafeChar 'v' = true := by decide
theorem isSafeChar_dot : isSafeChar '.' = false := by decide

theorem all_safe_map (l : List Char) :
    (l.map fun c => if isSafeChar c then c else '_').all isSafeChar = true := by
  simp only [List.all_map, List.all_eq_true, Function.comp]
  intro c _
  by_cases h : isSafeChar c = true <;> simp [h, isSafeChar_underscore]

/-- cf_safe_name output uses only letters, digits and underscores and never starts with a digit — for
    EVERY input string (any characters, any length; the empty string stays empty). -/
theorem C19_cfSafe_charset (s : List Char) : cfSafe (String.ofList (cfSafeName s)) = true := by
  unfold cfSafe
  rw [String.toList_ofList, Bool.and_eq_true]
  constructor
  · unfold cfSafeName; exact all_safe_map _
  · unfold cfSafeName
    cases s with
    | nil => simp
    | cons c t =>
      by_cases hc : (isAsciiDigit c || c == '_') = true
      · simp only [hc, if_true, List.map_cons, isSafeChar_v]
        decide
      · simp only [hc, List.map_cons]
        simp only [Bool.or_eq_true, not_or, Bool.not_eq_true] at hc
        by_cases hs : isSafeChar c = true
        · simp [hs, hc.1]
        · have hd : isAsciiDigit '_' = false := by decide
          simp [hs, hd]

/-- A name that is already safe is left alone. -/
theorem C19_cfSafe_id (s : List Char) (h : s.all isSafeChar = true)
    (h0 : match s with | c :: _ => !(isAsciiDigit c || c == '_') | [] => true) : cfSafeName s = s := by
  have hm : ∀ l : List Char, l.all isSafeChar = true →
      (l.map fun c => if isSafeChar c then c else '_') = l := by
    intro l hl
    rw [List.all_eq_true] at hl
    conv => rhs; rw [← List.map_id l]
    apply List.map_congr_left
    intro c hc
    simp [hl c hc]
  unfold cfSafeName
  cases s with
  | nil => rfl
  | cons c t =>
    simp only [Bool.not_eq_true'] at h0
    simp only [h0]
    exact hm _ h

/-- A result whose `stream.package.test` is safe up to its dots gets exactly `stream_package_test`. -/
theorem C19_plain_name (r : StoreRes) (nm : String) (h : plainName r = some nm) : columnName r = nm := by
  unfold plainName at h
  unfold columnName
  simp only [] at h
  generalize (rawName r).toList = raw at h
  cases raw with
  | nil => simp at h
  | cons c t =>
    by_cases hc : ((c :: t).all (fun c => isSafeChar c || c == '.') && !(isAsciiDigit c || c == '_')) = true
    · rw [if_pos hc] at h
      rw [Bool.and_eq_true] at hc
      obtain ⟨hall, hhead⟩ := hc
      simp only [Option.some.injEq] at h
      rw [← h]
      congr 1
      unfold cfSafeName
      simp only [Bool.not_eq_true'] at hhead
      simp only [hhead]
      apply List.map_congr_left
      intro d hd
      rw [List.all_eq_true] at hall
      have := hall d hd
      by_cases hdot : d = '.'
      · subst hdot; simp [isSafeChar_dot]
      · simp [hdot] at this ⊢
        simp [this]
    · rw [if_neg hc] at h; simp at h

/-- include keeps and exclude drops results by stream id, test name or function. -/
theorem C19_kept_iff (inc exc : Option (List String)) (r : StoreRes) :
    kept inc exc r = true ↔ ((inc = none ∨ ∃ l, inc = some l ∧ (r.fn ∈ l ∨ r.stream ∈ l ∨ r.test ∈ l)) ∧
                             ¬ (∃ l, exc = some l ∧ (r.fn ∈ l ∨ r.stream ∈ l ∨ r.test ∈ l))) := by
  cases inc <;> cases exc <;> simp [kept, listed, or_assoc, and_assoc]

/-! ### frames: `addIfAbsent` and one loop iteration -/

theorem Frame.has_append (df e : Frame) (n : String) :
    Frame.has (df ++ e) n = (Frame.has df n || Frame.has e n) := by
  simp [Frame.has]

theorem Frame.has_of_mem {df : Frame} {p : String × Nat} (h : p ∈ df) : Frame.has df p.1 = true := by
  simp only [Frame.has, List.any_eq_true]
  exact ⟨p, h, by simp⟩

theorem has_addIfAbsent (df : Frame) (n : String) (v : Option Nat) (m : String) :
    (addIfAbsent df n v).has m = (df.has m || (v.isSome && n == m)) := by
  cases v with
  | none => simp [addIfAbsent]
  | some x =>
    simp only [addIfAbsent]
    split
    · next h =>
      by_cases hnm : n = m
      · subst hnm; simp [h]
      · simp [hnm]
    · by_cases hnm : n = m <;> simp [Frame.has, hnm]

theorem mem_addIfAbsent {df : Frame} {p : String × Nat} (n : String) (v : Option Nat) (h : p ∈ df) :
    p ∈ addIfAbsent df n v := by
  cases v with
  | none => simpa [addIfAbsent] using h
  | some x =>
    simp only [addIfAbsent]
    split
    · exact h
    · exact List.mem_append_left _ h

theorem mem_addIfAbsent_new {df : Frame} {n : String} (x : Nat) (h : df.has n = false) :
    (n, x) ∈ addIfAbsent df n (some x) := by
  simp [addIfAbsent, h]

theorem nodup_addIfAbsent {df : Frame} (n : String) (v : Option Nat) (h : (df.map (·.1)).Nodup) :
    ((addIfAbsent df n v).map (·.1)).Nodup := by
  cases v with
  | none => simpa [addIfAbsent] using h
  | some x =>
    simp only [addIfAbsent]
    split
    · exact h
    · next hn =>
      rw [List.map_append, List.nodup_append]
      refine ⟨h, by simp, ?_⟩
      intro a ha b hb
      simp only [List.map_cons, List.map_nil, List.mem_singleton] at hb
      subst hb
      intro hab
      subst hab
      apply hn
      rw [List.mem_map] at ha
      obtain ⟨p, hp, rfl⟩ := ha
      exact Frame.has_of_mem hp

theorem filter_addIfAbsent_false (G : String → Bool) (df : Frame) (n : String) (v : Option Nat)
    (h : v.isSome = true → G n = false) :
    (addIfAbsent df n v).filter (fun p => G p.1) = df.filter (fun p => G p.1) := by
  cases v with
  | none => simp [addIfAbsent]
  | some x =>
    simp only [addIfAbsent]
    split
    · rfl
    · simp [List.filter_append, h]

theorem filter_addIfAbsent_true (G : String → Bool) (df : Frame) (n : String) (x : Nat)
    (hG : G n = true) (hn : df.has n = false) :
    (addIfAbsent df n (some x)).filter (fun p => G p.1) = df.filter (fun p => G p.1) ++ [(n, x)] := by
  simp [addIfAbsent, hn, List.filter_append, hG]

def axStep (wa : Bool) (df : Frame) (r : StoreRes) : Frame :=
  if wa then
    addIfAbsent (addIfAbsent (addIfAbsent (addIfAbsent df "time" r.tinp) "z" r.zinp) "lon" r.lon) "lat" r.lat
  else df

def dataStep (wd : Bool) (df : Frame) (r : StoreRes) : Frame :=
  if wd && r.stream != "" then addIfAbsent df r.stream (some r.data) else df

section Store
variable (wd wa : Bool) (inc exc : Option (List String))

theorem saveStep_eq (df : Frame) (r : StoreRes) :
    saveStep wd wa inc exc df r =
      if !(kept inc exc r) then axStep wa df r
      else addIfAbsent (dataStep wd (axStep wa df r) r) (columnName r) (some r.results) := rfl

theorem has_axStep (df : Frame) (r : StoreRes) (m : String) :
    (axStep wa df r).has m = (df.has m || (wa && ((r.tinp.isSome && "time" == m) || (r.zinp.isSome && "z" == m)
      || (r.lon.isSome && "lon" == m) || (r.lat.isSome && "lat" == m)))) := by
  cases wa with
  | false => simp [axStep]
  | true => simp [axStep, has_addIfAbsent, Bool.or_assoc]

theorem has_dataStep (df : Frame) (r : StoreRes) (m : String) :
    (dataStep wd df r).has m = (df.has m || (wd && r.stream != "" && r.stream == m)) := by
  unfold dataStep
  split
  · next h => simp [has_addIfAbsent, h]
  · next h => simp [h]

theorem has_saveStep (df : Frame) (r : StoreRes) (m : String) :
    (saveStep wd wa inc exc df r).has m = ((axStep wa df r).has m ||
      (kept inc exc r && ((wd && r.stream != "" && r.stream == m) || columnName r == m))) := by
  rw [saveStep_eq]
  cases hk : kept inc exc r with
  | false => simp
  | true => simp [has_addIfAbsent, has_dataStep, Bool.or_assoc]

theorem has_saveStep_imp (df : Frame) (r : StoreRes) (m : String)
    (h : (saveStep wd wa inc exc df r).has m = true) :
    df.has m = true ∨
    (wa = true ∧ ((m = "time" ∧ r.tinp.isSome = true) ∨ (m = "z" ∧ r.zinp.isSome = true) ∨
                 (m = "lon" ∧ r.lon.isSome = true) ∨ (m = "lat" ∧ r.lat.isSome = true))) ∨
    (kept inc exc r = true ∧ (m = r.stream ∨ m = columnName r)) := by
  rw [has_saveStep, has_axStep] at h
  simp only [Bool.or_eq_true, Bool.and_eq_true, beq_iff_eq] at h
  rcases h with (h | ⟨h1, h2⟩) | ⟨h1, h2⟩
  · exact Or.inl h
  · refine Or.inr (Or.inl ⟨h1, ?_⟩)
    rcases h2 with ((h | h) | h) | h
    · exact Or.inl ⟨h.2.symm, h.1⟩
    · exact Or.inr (Or.inl ⟨h.2.symm, h.1⟩)
    · exact Or.inr (Or.inr (Or.inl ⟨h.2.symm, h.1⟩))
    · exact Or.inr (Or.inr (Or.inr ⟨h.2.symm, h.1⟩))
  · refine Or.inr (Or.inr ⟨h1, ?_⟩)
    rcases h2 with h | h
    · exact Or.inl h.2.symm
    · exact Or.inr h.symm

theorem mem_axStep {df : Frame} {p : String × Nat} (r : StoreRes) (h : p ∈ df) : p ∈ axStep wa df r := by
  unfold axStep
  split
  · exact mem_addIfAbsent _ _ (mem_addIfAbsent _ _ (mem_addIfAbsent _ _ (mem_addIfAbsent _ _ h)))
  · exact h

theorem mem_dataStep {df : Frame} {p : String × Nat} (r : StoreRes) (h : p ∈ df) : p ∈ dataStep wd df r := by
  unfold dataStep
  split
  · exact mem_addIfAbsent _ _ h
  · exact h

theorem mem_saveStep_of_axStep {df : Frame} {p : String × Nat} (r : StoreRes) (h : p ∈ axStep wa df r) :
    p ∈ saveStep wd wa inc exc df r := by
  rw [saveStep_eq]
  split
  · exact h
  · exact mem_addIfAbsent _ _ (mem_dataStep wd r h)

theorem mem_saveStep {df : Frame} {p : String × Nat} (r : StoreRes) (h : p ∈ df) :
    p ∈ saveStep wd wa inc exc df r :=
  mem_saveStep_of_axStep wd wa inc exc r (mem_axStep wa r h)

theorem nodup_saveStep {df : Frame} (r : StoreRes) (h : (df.map (·.1)).Nodup) :
    ((saveStep wd wa inc exc df r).map (·.1)).Nodup := by
  have hax : ((axStep wa df r).map (·.1)).Nodup := by
    unfold axStep
    split
    · exact nodup_addIfAbsent _ _ (nodup_addIfAbsent _ _ (nodup_addIfAbsent _ _ (nodup_addIfAbsent _ _ h)))
    · exact h
  rw [saveStep_eq]
  split
  · exact hax
  · apply nodup_addIfAbsent
    unfold dataStep
    split
    · exact nodup_addIfAbsent _ _ hax
    · exact hax

theorem mem_saveFold {rs : List StoreRes} : ∀ {df : Frame} {p : String × Nat}, p ∈ df →
    p ∈ rs.foldl (saveStep wd wa inc exc) df := by
  induction rs with
  | nil => intro df p h; exact h
  | cons r rest ih => intro df p h; exact ih (mem_saveStep wd wa inc exc r h)

theorem nodup_saveFold (rs : List StoreRes) : ∀ (df : Frame), (df.map (·.1)).Nodup →
    ((rs.foldl (saveStep wd wa inc exc) df).map (·.1)).Nodup := by
  induction rs with
  | nil => intro df h; exact h
  | cons r rest ih => intro df h; exact ih _ (nodup_saveStep wd wa inc exc r h)


/-! ### one step: filtering, axis and data insertion -/

theorem filter_axStep (G : String → Bool) (df : Frame) (r : StoreRes)
    (hax : wa = true → (r.tinp.isSome = true → G "time" = false) ∧ (r.zinp.isSome = true → G "z" = false) ∧
      (r.lon.isSome = true → G "lon" = false) ∧ (r.lat.isSome = true → G "lat" = false)) :
    (axStep wa df r).filter (fun p => G p.1) = df.filter (fun p => G p.1) := by
  unfold axStep
  split
  · next h =>
    obtain ⟨h1, h2, h3, h4⟩ := hax h
    rw [filter_addIfAbsent_false G _ _ _ h4, filter_addIfAbsent_false G _ _ _ h3,
      filter_addIfAbsent_false G _ _ _ h2, filter_addIfAbsent_false G _ _ _ h1]
  · rfl

theorem filter_saveStep (G : String → Bool) (df : Frame) (r : StoreRes)
    (hax : wa = true → (r.tinp.isSome = true → G "time" = false) ∧ (r.zinp.isSome = true → G "z" = false) ∧
      (r.lon.isSome = true → G "lon" = false) ∧ (r.lat.isSome = true → G "lat" = false))
    (hdata : kept inc exc r = true → wd = true → r.stream ≠ "" → G r.stream = false)
    (hflag : kept inc exc r = true → G (columnName r) = true)
    (habs : kept inc exc r = true → df.has (columnName r) = false ∧
      ["time", "z", "lon", "lat"].contains (columnName r) = false ∧ columnName r ≠ r.stream) :
    (saveStep wd wa inc exc df r).filter (fun p => G p.1) =
      df.filter (fun p => G p.1) ++ (if kept inc exc r then [(columnName r, r.results)] else []) := by
  rw [saveStep_eq]
  cases hk : kept inc exc r with
  | false => simp [filter_axStep wa G df r hax]
  | true =>
    obtain ⟨ha1, ha2, ha3⟩ := habs hk
    have hd : (dataStep wd (axStep wa df r) r).filter (fun p => G p.1) = df.filter (fun p => G p.1) := by
      rw [← filter_axStep wa G df r hax]
      unfold dataStep
      split
      · next h =>
        simp only [Bool.and_eq_true, bne_iff_ne, ne_eq] at h
        exact filter_addIfAbsent_false G _ _ _ (fun _ => hdata hk h.1 h.2)
      · rfl
    have hn : (dataStep wd (axStep wa df r) r).has (columnName r) = false := by
      rw [has_dataStep, has_axStep]
      simp only [List.contains_cons, List.contains_nil, Bool.or_false, Bool.or_eq_false_iff, beq_eq_false_iff_ne, ne_eq] at ha2
      obtain ⟨c1, c2, c3, c4⟩ := ha2
      have e1 : ("time" == columnName r) = false := by simp [Ne.symm c1]
      have e2 : ("z" == columnName r) = false := by simp [Ne.symm c2]
      have e3 : ("lon" == columnName r) = false := by simp [Ne.symm c3]
      have e4 : ("lat" == columnName r) = false := by simp [Ne.symm c4]
      have e5 : (r.stream == columnName r) = false := by simp [Ne.symm ha3]
      simp [ha1, e1, e2, e3, e4, e5]
    simp only [Bool.not_true, Bool.false_eq_true, if_false, if_true]
    rw [filter_addIfAbsent_true G _ _ _ (hflag hk) hn, hd]

theorem mem_axStep_time {df : Frame} {r : StoreRes} {x : Nat} (hwa : wa = true) (hf : r.tinp = some x)
    (h : df.has "time" = false) : ("time", x) ∈ axStep wa df r := by
  subst hwa
  simp only [axStep, if_true, hf]
  exact mem_addIfAbsent _ _ (mem_addIfAbsent _ _ (mem_addIfAbsent _ _ (mem_addIfAbsent_new x h)))

theorem mem_axStep_z {df : Frame} {r : StoreRes} {x : Nat} (hwa : wa = true) (hf : r.zinp = some x)
    (h : df.has "z" = false) : ("z", x) ∈ axStep wa df r := by
  subst hwa
  simp only [axStep, if_true, hf]
  refine mem_addIfAbsent _ _ (mem_addIfAbsent _ _ (mem_addIfAbsent_new x ?_))
  simp [has_addIfAbsent, h]

theorem mem_axStep_lon {df : Frame} {r : StoreRes} {x : Nat} (hwa : wa = true) (hf : r.lon = some x)
    (h : df.has "lon" = false) : ("lon", x) ∈ axStep wa df r := by
  subst hwa
  simp only [axStep, if_true, hf]
  refine mem_addIfAbsent _ _ (mem_addIfAbsent_new x ?_)
  simp [has_addIfAbsent, h]

theorem mem_axStep_lat {df : Frame} {r : StoreRes} {x : Nat} (hwa : wa = true) (hf : r.lat = some x)
    (h : df.has "lat" = false) : ("lat", x) ∈ axStep wa df r := by
  subst hwa
  simp only [axStep, if_true, hf]
  refine mem_addIfAbsent_new x ?_
  simp [has_addIfAbsent, h]

/-! ### the loop -/

theorem saveFold_axis (n : String) (f : StoreRes → Option Nat)
    (hadd : ∀ (df : Frame) (r : StoreRes) (x : Nat), f r = some x → df.has n = false → (n, x) ∈ axStep wa df r)
    (hkeep : ∀ (df : Frame) (r : StoreRes), f r = none → df.has n = false → (axStep wa df r).has n = false)
    (rs : List StoreRes) : ∀ (df : Frame) (x : Nat),
    rs.findSome? f = some x → df.has n = false →
    (∀ r ∈ rs, kept inc exc r = true → r.stream ≠ n ∧ columnName r ≠ n) →
    (n, x) ∈ rs.foldl (saveStep wd wa inc exc) df := by
  induction rs with
  | nil => intro df x h; simp at h
  | cons r rest ih =>
    intro df x hfind hdf hks
    rw [List.foldl_cons]
    cases hf : f r with
    | some y =>
      simp only [List.findSome?_cons, hf, Option.some.injEq] at hfind
      subst hfind
      exact mem_saveFold wd wa inc exc (mem_saveStep_of_axStep wd wa inc exc r (hadd df r y hf hdf))
    | none =>
      simp only [List.findSome?_cons, hf] at hfind
      apply ih _ x hfind
      · rw [has_saveStep, hkeep df r hf hdf]
        cases hk : kept inc exc r with
        | false => simp
        | true =>
          obtain ⟨h1, h2⟩ := hks r (by simp) hk
          simp [h1, h2]
      · intro q hq; exact hks q (List.mem_cons_of_mem _ hq)

/-- The global no-collision facts about the kept results. -/
def StoreNC (ks : List StoreRes) : Prop :=
  (∀ r ∈ ks, ["time", "z", "lon", "lat"].contains r.stream = false ∧
             ["time", "z", "lon", "lat"].contains (columnName r) = false) ∧
  (∀ r ∈ ks, ∀ q ∈ ks, columnName q ≠ r.stream)

theorem saveFold_flagcols (G : String → Bool) (ks : List StoreRes) (hNC : StoreNC ks) (rs : List StoreRes) :
    ∀ (df : Frame),
    (∀ r ∈ rs, kept inc exc r = true → r ∈ ks) →
    (∀ r ∈ rs, wa = true → (r.tinp.isSome = true → G "time" = false) ∧ (r.zinp.isSome = true → G "z" = false) ∧
      (r.lon.isSome = true → G "lon" = false) ∧ (r.lat.isSome = true → G "lat" = false)) →
    (∀ r ∈ ks, wd = true → r.stream ≠ "" → G r.stream = false) →
    (∀ r ∈ ks, G (columnName r) = true) →
    (∀ r ∈ rs, kept inc exc r = true → df.has (columnName r) = false) →
    ((rs.filter (kept inc exc)).map columnName).Nodup →
    (rs.foldl (saveStep wd wa inc exc) df).filter (fun p => G p.1) =
      df.filter (fun p => G p.1) ++ (rs.filter (kept inc exc)).map (fun r => (columnName r, r.results)) := by
  induction rs with
  | nil => intro df _ _ _ _ _ _; simp
  | cons r rest ih =>
    intro df hsub hax hdata hflag habs hnd
    rw [List.foldl_cons]
    have hsub' : ∀ q ∈ rest, kept inc exc q = true → q ∈ ks := fun q hq => hsub q (List.mem_cons_of_mem _ hq)
    have hstep := filter_saveStep wd wa inc exc G df r (hax r (by simp))
      (fun hk => hdata r (hsub r (by simp) hk)) (fun hk => hflag r (hsub r (by simp) hk))
      (fun hk => ⟨habs r (by simp) hk, (hNC.1 r (hsub r (by simp) hk)).2,
        hNC.2 r (hsub r (by simp) hk) r (hsub r (by simp) hk)⟩)
    have hnd' : ((rest.filter (kept inc exc)).map columnName).Nodup := by
      cases hk : kept inc exc r with
      | false => simpa [List.filter_cons, hk] using hnd
      | true =>
        simp only [List.filter_cons, hk, if_true, List.map_cons, List.nodup_cons] at hnd
        exact hnd.2
    have habs' : ∀ q ∈ rest, kept inc exc q = true → (saveStep wd wa inc exc df r).has (columnName q) = false := by
      intro q hq hkq
      have hqk := hsub' q hq hkq
      cases hcontra : (saveStep wd wa inc exc df r).has (columnName q) with
      | false => rfl
      | true =>
        exfalso
        have hcq := (hNC.1 q hqk).2
        rcases has_saveStep_imp wd wa inc exc df r _ hcontra with h | ⟨_, h⟩ | ⟨hk, h⟩
        · rw [habs q (List.mem_cons_of_mem _ hq) hkq] at h; exact Bool.noConfusion h
        · rcases h with h | h | h | h <;> simp [h.1] at hcq
        · rcases h with h | h
          · exact hNC.2 r (hsub r (by simp) hk) q hqk h
          · simp only [List.filter_cons, hk, if_true, List.map_cons, List.nodup_cons] at hnd
            apply hnd.1
            rw [← h]
            exact List.mem_map.2 ⟨q, List.mem_filter.2 ⟨hq, hkq⟩, rfl⟩
    rw [ih _ hsub' (fun q hq => hax q (List.mem_cons_of_mem _ hq)) hdata hflag habs' hnd', hstep]
    cases hk : kept inc exc r <;> simp [List.filter_cons, hk]


/-! ### data columns -/

def dataAdd (acc : Frame) (r : StoreRes) : Frame :=
  if r.stream = "" || acc.any (·.1 = r.stream) then acc else acc ++ [(r.stream, r.data)]

def dataFold (acc : Frame) (ks : List StoreRes) : Frame := ks.foldl dataAdd acc

theorem has_dataAdd (acc : Frame) (r : StoreRes) (m : String) :
    (dataAdd acc r).has m = (acc.has m || (r.stream != "" && r.stream == m)) := by
  unfold dataAdd
  by_cases h1 : r.stream = ""
  · simp [h1]
  · by_cases h2 : acc.any (·.1 = r.stream) = true
    · simp only [h1, h2, decide_false, Bool.false_or, if_true]
      by_cases hm : r.stream = m
      · subst hm
        have : Frame.has acc r.stream = true := h2
        simp [this]
      · simp [hm]
    · simp only [h1, h2, decide_false, Bool.false_or, if_false, Bool.false_eq_true]
      rw [Frame.has_append]
      by_cases hm : r.stream = m
      · subst hm; simp [Frame.has, h1]
      · simp [Frame.has, hm, h1]

theorem has_dataFold (ks : List StoreRes) : ∀ (acc : Frame) (m : String),
    (dataFold acc ks).has m = (acc.has m || (m != "" && ks.any (·.stream == m))) := by
  induction ks with
  | nil => intro acc m; simp [dataFold]
  | cons r rest ih =>
    intro acc m
    simp only [dataFold, List.foldl_cons] at ih ⊢
    rw [ih, has_dataAdd]
    by_cases hm : r.stream = m
    · subst hm; cases acc.has r.stream <;> cases (r.stream != "") <;> simp
    · have hm' : (r.stream == m) = false := by simp [hm]
      simp [hm']

theorem mem_dataAdd {acc : Frame} {r : StoreRes} {p : String × Nat} (h : p ∈ dataAdd acc r) :
    p ∈ acc ∨ (p = (r.stream, r.data) ∧ r.stream ≠ "" ∧ acc.has r.stream = false) := by
  unfold dataAdd at h
  split at h
  · exact Or.inl h
  · next hc =>
    simp only [Bool.or_eq_true, decide_eq_true_eq, not_or, Bool.not_eq_true] at hc
    rcases List.mem_append.1 h with h | h
    · exact Or.inl h
    · exact Or.inr ⟨by simpa using h, hc.1, hc.2⟩

theorem mem_saveStep_data {df : Frame} {r : StoreRes} (hk : kept inc exc r = true) (hs : r.stream ≠ "")
    (hc : ["time", "z", "lon", "lat"].contains r.stream = false) (h : df.has r.stream = false) :
    (r.stream, r.data) ∈ saveStep true wa inc exc df r := by
  rw [saveStep_eq]
  simp only [hk, Bool.not_true, Bool.false_eq_true, if_false]
  apply mem_addIfAbsent
  have hcond : (true && r.stream != "") = true := by simp [hs]
  unfold dataStep
  rw [if_pos hcond]
  apply mem_addIfAbsent_new
  rw [has_axStep]
  simp only [List.contains_cons, List.contains_nil, Bool.or_false, Bool.or_eq_false_iff, beq_eq_false_iff_ne, ne_eq] at hc
  obtain ⟨c1, c2, c3, c4⟩ := hc
  have e1 : ("time" == r.stream) = false := by simp [Ne.symm c1]
  have e2 : ("z" == r.stream) = false := by simp [Ne.symm c2]
  have e3 : ("lon" == r.stream) = false := by simp [Ne.symm c3]
  have e4 : ("lat" == r.stream) = false := by simp [Ne.symm c4]
  simp [h, e1, e2, e3, e4]

theorem saveFold_data (ks : List StoreRes) (hNC : StoreNC ks) (rs : List StoreRes) : ∀ (df acc : Frame),
    (∀ r ∈ rs, kept inc exc r = true → r ∈ ks) →
    (∀ p ∈ acc, p ∈ df) →
    (∀ r ∈ rs, kept inc exc r = true → r.stream ≠ "" → df.has r.stream = true → acc.has r.stream = true) →
    ∀ p ∈ dataFold acc (rs.filter (kept inc exc)), p ∈ rs.foldl (saveStep true wa inc exc) df := by
  induction rs with
  | nil => intro df acc _ hacc _ p hp; exact hacc p (by simpa [dataFold] using hp)
  | cons r rest ih =>
    intro df acc hsub hacc hdf p hp
    rw [List.foldl_cons]
    have hsub' : ∀ q ∈ rest, kept inc exc q = true → q ∈ ks := fun q hq => hsub q (List.mem_cons_of_mem _ hq)
    -- names that can have entered the frame in this step
    have hnew : ∀ q ∈ rest, kept inc exc q = true → q.stream ≠ "" →
        (saveStep true wa inc exc df r).has q.stream = true →
        df.has q.stream = true ∨ (kept inc exc r = true ∧ q.stream = r.stream) := by
      intro q hq hkq hqs hh
      have hqk := hsub' q hq hkq
      have hcq := (hNC.1 q hqk).1
      rcases has_saveStep_imp true wa inc exc df r _ hh with h | ⟨_, h⟩ | ⟨hk, h⟩
      · exact Or.inl h
      · exfalso; rcases h with h | h | h | h <;> simp [h.1] at hcq
      · rcases h with h | h
        · exact Or.inr ⟨hk, h⟩
        · exact absurd h.symm (hNC.2 q hqk r (hsub r (by simp) hk))
    cases hk : kept inc exc r with
    | false =>
      rw [List.filter_cons, hk] at hp
      simp only [Bool.false_eq_true, if_false] at hp
      apply ih _ acc hsub' (fun p hp => mem_saveStep true wa inc exc r (hacc p hp)) ?_ p hp
      intro q hq hkq hqs hh
      rcases hnew q hq hkq hqs hh with h | ⟨h, _⟩
      · exact hdf q (List.mem_cons_of_mem _ hq) hkq hqs h
      · rw [hk] at h; exact Bool.noConfusion h
    | true =>
      rw [List.filter_cons, hk] at hp
      simp only [if_true, dataFold, List.foldl_cons] at hp
      have hrk := hsub r (by simp) hk
      apply ih _ (dataAdd acc r) hsub' ?_ ?_ p hp
      · intro p' hp'
        rcases mem_dataAdd hp' with h | ⟨h1, h2, h3⟩
        · exact mem_saveStep true wa inc exc r (hacc p' h)
        · subst h1
          apply mem_saveStep_data wa inc exc hk h2 (hNC.1 r hrk).1
          cases hd : df.has r.stream with
          | false => rfl
          | true => rw [hdf r (by simp) hk h2 hd] at h3; exact Bool.noConfusion h3
      · intro q hq hkq hqs hh
        rw [has_dataAdd]
        rcases hnew q hq hkq hqs hh with h | ⟨_, h⟩
        · rw [hdf q (List.mem_cons_of_mem _ hq) hkq hqs h]; rfl
        · rw [← h]; simp [hqs]

end Store

/-! ### the expected columns -/

theorem expectedData_eq (c : StoreCase) :
    expectedData c = if c.writeData then dataFold [] (keptResults c) else [] := rfl

theorem mem_expectedAxes {c : StoreCase} {p : String × Nat} (h : p ∈ expectedAxes c) :
    c.writeAxes = true ∧
    ((p.1 = "time" ∧ c.rs.findSome? (·.tinp) = some p.2) ∨ (p.1 = "z" ∧ c.rs.findSome? (·.zinp) = some p.2) ∨
     (p.1 = "lon" ∧ c.rs.findSome? (·.lon) = some p.2) ∨ (p.1 = "lat" ∧ c.rs.findSome? (·.lat) = some p.2)) := by
  unfold expectedAxes firstSome at h
  split at h
  · next hwa =>
    refine ⟨hwa, ?_⟩
    simp only [List.mem_filterMap, List.mem_cons, List.not_mem_nil, or_false] at h
    obtain ⟨a, ha, hfa⟩ := h
    rcases ha with rfl | rfl | rfl | rfl
    · simp only [Option.map_eq_some_iff] at hfa
      obtain ⟨x, hx, rfl⟩ := hfa
      exact Or.inl ⟨rfl, hx⟩
    · simp only [Option.map_eq_some_iff] at hfa
      obtain ⟨x, hx, rfl⟩ := hfa
      exact Or.inr (Or.inl ⟨rfl, hx⟩)
    · simp only [Option.map_eq_some_iff] at hfa
      obtain ⟨x, hx, rfl⟩ := hfa
      exact Or.inr (Or.inr (Or.inl ⟨rfl, hx⟩))
    · simp only [Option.map_eq_some_iff] at hfa
      obtain ⟨x, hx, rfl⟩ := hfa
      exact Or.inr (Or.inr (Or.inr ⟨rfl, hx⟩))
  · simp at h

theorem expectedAxes_name {c : StoreCase} {n : String} (h : (expectedAxes c).any (·.1 = n) = true) :
    ["time", "z", "lon", "lat"].contains n = true := by
  simp only [List.any_eq_true, decide_eq_true_eq] at h
  obtain ⟨p, hp, rfl⟩ := h
  rcases (mem_expectedAxes hp).2 with h | h | h | h <;> simp [h.1]

theorem store_findSome_of_mem {f : StoreRes → Option Nat} {rs : List StoreRes} {r : StoreRes} (hr : r ∈ rs)
    (h : (f r).isSome = true) : ∃ x, rs.findSome? f = some x := by
  cases hf : rs.findSome? f with
  | some x => exact ⟨x, rfl⟩
  | none =>
    rw [List.findSome?_eq_none_iff] at hf
    rw [hf r hr] at h
    exact Bool.noConfusion h

theorem expectedAxes_has {c : StoreCase} (hwa : c.writeAxes = true) {r : StoreRes} (hr : r ∈ c.rs) :
    (r.tinp.isSome = true → (expectedAxes c).any (·.1 = "time") = true) ∧
    (r.zinp.isSome = true → (expectedAxes c).any (·.1 = "z") = true) ∧
    (r.lon.isSome = true → (expectedAxes c).any (·.1 = "lon") = true) ∧
    (r.lat.isSome = true → (expectedAxes c).any (·.1 = "lat") = true) := by
  refine ⟨?_, ?_, ?_, ?_⟩ <;> intro h <;> obtain ⟨x, hx⟩ := store_findSome_of_mem hr h <;>
    simp [expectedAxes, firstSome, hwa, hx]

theorem NC_of_noCollision (c : StoreCase) (h : noCollision c = true) :
    StoreNC (keptResults c) ∧ ((keptResults c).map columnName).Nodup := by
  unfold noCollision at h
  simp only [Bool.and_eq_true, decide_eq_true_eq, List.all_eq_true, bne_iff_ne, Bool.not_eq_true'] at h
  obtain ⟨⟨h1, h2⟩, h3⟩ := h
  exact ⟨⟨fun r hr => ⟨(h2 r hr).1, h3 r hr⟩, fun r hr q hq => (h2 r hr).2 q hq⟩, h1⟩

theorem mem_keptResults {c : StoreCase} {r : StoreRes} (hr : r ∈ c.rs) (hk : kept c.inc c.exc r = true) :
    r ∈ keptResults c := List.mem_filter.2 ⟨hr, hk⟩

/-! ### the saved frame -/

/-- Column names of the saved frame are pairwise distinct (no hypothesis needed). -/
theorem C19_save_nodup (c : StoreCase) :
    ((storeSave c.writeData c.writeAxes c.inc c.exc c.rs).map (·.1)).Nodup :=
  nodup_saveFold _ _ _ _ c.rs [] (by simp)

/-- Every expected axis column (first result supplying the axis, filtered-out results included) is in the frame. -/
theorem C19_save_axes (c : StoreCase) (h : noCollision c = true) :
    ∀ p ∈ expectedAxes c, p ∈ storeSave c.writeData c.writeAxes c.inc c.exc c.rs := by
  intro p hp
  obtain ⟨hNC, _⟩ := NC_of_noCollision c h
  obtain ⟨hwa, hcase⟩ := mem_expectedAxes hp
  have hne : ∀ n, ["time", "z", "lon", "lat"].contains n = true →
      ∀ r ∈ c.rs, kept c.inc c.exc r = true → r.stream ≠ n ∧ columnName r ≠ n := by
    intro n hn r hr hk
    have := hNC.1 r (mem_keptResults hr hk)
    constructor
    · intro e; rw [e, hn] at this; exact Bool.noConfusion this.1
    · intro e; rw [e, hn] at this; exact Bool.noConfusion this.2
  obtain ⟨n, x⟩ := p
  unfold storeSave
  rcases hcase with ⟨h1, h2⟩ | ⟨h1, h2⟩ | ⟨h1, h2⟩ | ⟨h1, h2⟩ <;> simp only at h1 h2 <;> subst h1
  · exact saveFold_axis _ _ _ _ "time" (·.tinp) (fun df r x hf hd => mem_axStep_time _ hwa hf hd)
      (fun df r hf hd => by rw [has_axStep]; simp [hf, hd]) c.rs [] x h2 rfl (hne _ (by decide))
  · exact saveFold_axis _ _ _ _ "z" (·.zinp) (fun df r x hf hd => mem_axStep_z _ hwa hf hd)
      (fun df r hf hd => by rw [has_axStep]; simp [hf, hd]) c.rs [] x h2 rfl (hne _ (by decide))
  · exact saveFold_axis _ _ _ _ "lon" (·.lon) (fun df r x hf hd => mem_axStep_lon _ hwa hf hd)
      (fun df r hf hd => by rw [has_axStep]; simp [hf, hd]) c.rs [] x h2 rfl (hne _ (by decide))
  · exact saveFold_axis _ _ _ _ "lat" (·.lat) (fun df r x hf hd => mem_axStep_lat _ hwa hf hd)
      (fun df r hf hd => by rw [has_axStep]; simp [hf, hd]) c.rs [] x h2 rfl (hne _ (by decide))

/-- Every expected data column is in the frame. -/
theorem C19_save_data (c : StoreCase) (h : noCollision c = true) :
    ∀ p ∈ expectedData c, p ∈ storeSave c.writeData c.writeAxes c.inc c.exc c.rs := by
  intro p hp
  obtain ⟨hNC, _⟩ := NC_of_noCollision c h
  rw [expectedData_eq] at hp
  cases hwd : c.writeData with
  | false => simp [hwd] at hp
  | true =>
    simp only [hwd, if_true] at hp
    unfold storeSave
    exact saveFold_data _ _ _ (keptResults c) hNC c.rs [] [] (fun r hr hk => mem_keptResults hr hk)
      (fun p hp => hp) (fun r _ _ _ hh => by simp [Frame.has] at hh) p hp

/-- The flag columns of the saved frame are exactly one `(columnName r, r.results)` per kept result, in order. -/
theorem C19_save_flagcols (c : StoreCase) (h : noCollision c = true) :
    (storeSave c.writeData c.writeAxes c.inc c.exc c.rs).filter
      (fun p => !((expectedAxes c).any (·.1 = p.1)) && !((expectedData c).any (·.1 = p.1))) =
    (keptResults c).map (fun r => (columnName r, r.results)) := by
  obtain ⟨hNC, hnd⟩ := NC_of_noCollision c h
  have hdat : ∀ n, (expectedData c).any (·.1 = n) = (c.writeData && (n != "" && (keptResults c).any (·.stream == n))) := by
    intro n
    rw [expectedData_eq]
    cases c.writeData with
    | false => simp
    | true =>
      have := has_dataFold (keptResults c) [] n
      simp only [Frame.has] at this
      simp only [if_true, this]
      simp
  have key := saveFold_flagcols c.writeData c.writeAxes c.inc c.exc
    (fun n => !((expectedAxes c).any (·.1 = n)) && !((expectedData c).any (·.1 = n)))
    (keptResults c) hNC c.rs [] (fun r hr hk => mem_keptResults hr hk)
    (fun r hr hwa => by
      obtain ⟨a1, a2, a3, a4⟩ := expectedAxes_has hwa hr
      refine ⟨fun hs => ?_, fun hs => ?_, fun hs => ?_, fun hs => ?_⟩
      · simp [a1 hs]
      · simp [a2 hs]
      · simp [a3 hs]
      · simp [a4 hs])
    (fun r hr hwd hs => by
      have : (expectedData c).any (·.1 = r.stream) = true := by
        rw [hdat, hwd]
        simp only [Bool.true_and, Bool.and_eq_true, bne_iff_ne, ne_eq, List.any_eq_true, beq_iff_eq]
        exact ⟨hs, r, hr, rfl⟩
      simp only [this]; simp)
    (fun r hr => by
      have e1 : (expectedAxes c).any (·.1 = columnName r) = false := by
        cases he : (expectedAxes c).any (·.1 = columnName r) with
        | false => rfl
        | true => have := expectedAxes_name he; rw [(hNC.1 r hr).2] at this; exact Bool.noConfusion this
      have e2 : (expectedData c).any (·.1 = columnName r) = false := by
        rw [hdat]
        cases he : (keptResults c).any (·.stream == columnName r) with
        | false => simp
        | true =>
          simp only [List.any_eq_true, beq_iff_eq] at he
          obtain ⟨q, hq, hqe⟩ := he
          exact absurd hqe.symm (hNC.2 q hq r hr)
      simp only [e1, e2]; rfl)
    (fun r _ _ => rfl) hnd
  simp only [List.filter_nil, List.nil_append] at key
  exact key

/-- C19 main: when no two kept results share a column name (and no stream id clashes with another column),
    the frame written by the save loop holds exactly the axis columns, the data columns and one CF-safe
    flag column per kept result with that result's flags. -/
theorem C19_main (c : StoreCase) (h : noCollision c = true) :
    C19.holds c (storeSave c.writeData c.writeAxes c.inc c.exc c.rs) = true := by
  have hfc := C19_save_flagcols c h
  unfold C19.holds
  simp only []
  rw [hfc]
  simp only [Bool.and_eq_true]
  refine ⟨⟨⟨⟨⟨?_, ?_⟩, ?_⟩, ?_⟩, ?_⟩, ?_⟩
  · rw [List.all_eq_true]
    intro p hp
    exact List.contains_iff_mem.2 (C19_save_axes c h p hp)
  · rw [List.all_eq_true]
    intro p hp
    exact List.contains_iff_mem.2 (C19_save_data c h p hp)
  · exact decide_eq_true (C19_save_nodup c)
  · rw [List.all_eq_true]
    intro p hp
    obtain ⟨r, _, rfl⟩ := List.mem_map.1 hp
    exact C19_cfSafe_charset _
  · have : ((keptResults c).map (fun r => (columnName r, r.results))).map (·.2) =
        (keptResults c).map (·.results) := by
      rw [List.map_map]; rfl
    rw [this]
    exact beq_self_eq_true _
  · rw [List.all_eq_true]
    intro r hr
    cases hp : plainName r with
    | none => rfl
    | some nm =>
      simp only
      rw [← C19_plain_name r nm hp]
      exact List.contains_iff_mem.2 (List.mem_map.2 ⟨r, hr, rfl⟩)

/-! ### non-vacuity -/

/-- Two streams (one id is not CF-safe), include and exclude lists, data and axis columns. -/
def c19Demo : StoreCase :=
  { writeData := true, writeAxes := true, inc := some ["sea-temp", "salinity"], exc := some ["spike_test"],
    rs := [⟨"sea-temp", "qartod", "gross_range_test", "f_gross", 1, 10, none, some 200, none, none⟩,
           ⟨"sea-temp", "qartod", "spike_test", "f_spike", 2, 10, some 100, some 200, none, none⟩,
           ⟨"salinity", "qartod", "flat_line_test", "f_flat", 3, 11, some 101, some 201, some 300, none⟩,
           ⟨"pressure", "qartod", "gross_range_test", "f_gross", 4, 12, some 102, none, none, some 400⟩] }

example : noCollision c19Demo = true := by decide +kernel
example : storeSave c19Demo.writeData c19Demo.writeAxes c19Demo.inc c19Demo.exc c19Demo.rs =
    [("z", 200), ("sea-temp", 10), ("sea_temp_qartod_gross_range_test", 1), ("time", 100),
     ("lon", 300), ("salinity", 11), ("salinity_qartod_flat_line_test", 3), ("lat", 400)] := by decide +kernel
example : C19.holds c19Demo (storeSave c19Demo.writeData c19Demo.writeAxes c19Demo.inc c19Demo.exc c19Demo.rs) = true :=
  C19_main c19Demo (by decide +kernel)
example : plainName c19Demo.rs[2]! = some "salinity_qartod_flat_line_test" := by decide +kernel
example : plainName c19Demo.rs[0]! = none := by decide +kernel

/-- `x-1` and `x.1` collide after sanitising: the second flag column is silently dropped. -/
def c19Clash : StoreCase :=
  { writeData := false, writeAxes := false, inc := none, exc := none,
    rs := [⟨"x-1", "", "t", "f", 1, 10, none, none, none, none⟩, ⟨"x.1", "", "t", "f", 2, 11, none, none, none, none⟩] }
example : noCollision c19Clash = false := by decide +kernel
example : storeSave false false none none c19Clash.rs = [("x_1_t", 1)] := by decide +kernel
example : C19.holds c19Clash (storeSave c19Clash.writeData c19Clash.writeAxes c19Clash.inc c19Clash.exc c19Clash.rs) = false := by
  have hs : storeSave c19Clash.writeData c19Clash.writeAxes c19Clash.inc c19Clash.exc c19Clash.rs = [("x_1_t", 1)] := by
    decide +kernel
  rw [hs]
  cases hh : C19.holds c19Clash [("x_1_t", 1)] with
  | false => rfl
  | true =>
    -- one flag column cannot carry the results of two kept tests (`List.mergeSort` preserves length)
    exfalso
    unfold C19.holds at hh
    simp only [Bool.and_eq_true, beq_iff_eq] at hh
    have := congrArg List.length hh.1.2
    simp only [sortNats, List.length_mergeSort, List.length_map] at this
    revert this
    decide +kernel
example : cfSafeName "3d-wind speed".toList = "v_3d_wind_speed".toList := by decide +kernel
example : cfSafeName [] = [] := by decide

end IoosQc
