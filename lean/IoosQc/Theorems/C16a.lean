/-
  C16 (first group: gross range, valid range, location, climatology, spike) — re-running a test
  on the same data with parameters at least as strict (`stricter old new`) never makes a flag
  less severe in GOOD < SUSPECT < FAIL and leaves the UNKNOWN / MISSING points as they are
  (`C16.holds`).

  Hypotheses beyond `stricter`, and why (counterexamples are machine-checked at the end):
  * location: `lon.length = lat.length` — otherwise both calls raise and `C16.holds` is false;
    `inDom` (hop list consistent with the track, `range_max ≥ 0`) — otherwise adding or lowering
    `range_max` can turn MISSING / FAIL into SUSPECT.
  * climatology: the OLD members have sorted value / fail spans (`c16a_membersSorted`), which is
    what `ClimatologyConfig.add` produces.  `nested` compares the spans as unordered pairs but
    the model (like the code after `add`) uses them as given; for an unsorted old span the
    theorem is false.
  * spike: a known method string, otherwise both calls raise.
-/
import IoosQc.Lemmas.Basic
import IoosQc.Props.C16
import IoosQc.Theorems.C03
import IoosQc.Theorems.C08
set_option linter.unusedSimpArgs false
set_option linter.unusedVariables false

namespace IoosQc

/-! ### Lifting a pointwise statement to the lists of codes -/

/-- The pointwise relation on flags that is proved: same flag, or a move up in
    GOOD < SUSPECT < FAIL.  (Slightly stronger than `C16.holdsAt`, which would also accept
    UNKNOWN ↔ MISSING.) -/
def c16a_ok : Flag → Flag → Bool
  | .good, .good | .good, .suspect | .good, .fail => true
  | .suspect, .suspect | .suspect, .fail => true
  | .fail, .fail => true
  | .unknown, .unknown => true
  | .missing, .missing => true
  | _, _ => false

theorem c16a_ok_holdsAt (f g : Flag) (h : c16a_ok f g = true) :
    C16.holdsAt (f.code : Int) (g.code : Int) = true := by
  cases f <;> cases g <;> first | rfl | (exact absurd h (by decide))

theorem c16a_ok_refl (f : Flag) : c16a_ok f f = true := by cases f <;> rfl

theorem c16a_holdsList_map {α : Type} (l : List α) (f g : α → Flag)
    (h : ∀ x ∈ l, c16a_ok (f x) (g x) = true) :
    C16.holdsList ((l.map f).map fun f => (f.code : Int))
      ((l.map g).map fun f => (f.code : Int)) = true := by
  induction l with
  | nil => rfl
  | cons x xs ih =>
    simp only [List.map_cons, C16.holdsList, Bool.and_eq_true]
    exact ⟨c16a_ok_holdsAt _ _ (h x (by simp)), ih (fun y hy => h y (by simp [hy]))⟩

theorem c16a_holds_map {α : Type} (l : List α) (f g : α → Flag)
    (h : ∀ x ∈ l, c16a_ok (f x) (g x) = true) :
    C16.holds (Res.toObs (.ok (l.map f))) (Res.toObs (.ok (l.map g))) = true := by
  simp only [C16.holds, Res.toObs]
  exact c16a_holdsList_map l f g h

theorem c16a_holds_range (n : Nat) (f g : Nat → Flag)
    (h : ∀ i, i < n → c16a_ok (f i) (g i) = true) :
    C16.holds (Res.toObs (.ok ((List.range n).map f))) (Res.toObs (.ok ((List.range n).map g))) = true :=
  c16a_holds_map _ f g (fun i hi => h i (List.mem_range.1 hi))

/-! ### gross_range_test -/

theorem c16a_seqPair_some (a : SeqArg) (p : Rat × Rat) (h : seqPair a = some p) :
    a.vals = [p.1, p.2] := by
  unfold seqPair at h
  split at h
  · simp at h; subst h; assumption
  · simp at h

theorem c16a_grossRange_none (f : SeqArg) (a b : Rat) (inp : List V)
    (hseq : f.isSeq = true) (hv : f.vals = [a, b]) :
    grossRange f none inp = .ok (inp.map (grossAt (sort2 a b) none)) := by
  simp [grossRange, fixedLength, hseq, hv, bind, Except.bind, pure, Except.pure]

theorem c16a_grossRange_some (f s : SeqArg) (a b c d : Rat) (inp : List V)
    (hseq : f.isSeq = true) (hv : f.vals = [a, b]) (hsseq : s.isSeq = true) (hsv : s.vals = [c, d])
    (hn : nested (c, d) (a, b) = true) :
    grossRange f (some s) inp = .ok (inp.map (grossAt (sort2 a b) (some (sort2 c d)))) := by
  have hc : ¬ (lo2 c d < lo2 a b ∨ hi2 a b < hi2 c d) := by
    simp only [nested, Bool.and_eq_true, decide_eq_true_eq] at hn
    grind
  simp [grossRange, fixedLength, hseq, hv, hsseq, hsv, bind, Except.bind, pure, Except.pure,
    sort2_eq, hc]

/-- no suspect span before, none after: the fail span shrinks. -/
theorem c16a_grossAt_nn (a b a' b' : Rat) (x : V) (hn : nested (a', b') (a, b) = true) :
    c16a_ok (grossAt (sort2 a b) none x) (grossAt (sort2 a' b') none x) = true := by
  simp only [nested, Bool.and_eq_true, decide_eq_true_eq] at hn
  rw [sort2_eq, sort2_eq]
  generalize lo2 a b = l at *
  generalize hi2 a b = h at *
  generalize lo2 a' b' = l' at *
  generalize hi2 a' b' = h' at *
  cases x with
  | none => simp [grossAt, overrides, outside, vlt, vgt, c16a_ok]
  | some v =>
    simp only [grossAt, overrides, outside, vlt, vgt, List.foldl]
    by_cases h1 : v < l <;> by_cases h2 : h < v <;> by_cases h3 : v < l' <;> by_cases h4 : h' < v <;>
      simp [h1, h2, h3, h4, c16a_ok] <;> grind

/-- a suspect span is added. -/
theorem c16a_grossAt_ns (a b a' b' : Rat) (u' : Rat × Rat) (x : V)
    (hn : nested (a', b') (a, b) = true) :
    c16a_ok (grossAt (sort2 a b) none x) (grossAt (sort2 a' b') (some u') x) = true := by
  simp only [nested, Bool.and_eq_true, decide_eq_true_eq] at hn
  rw [sort2_eq, sort2_eq]
  generalize lo2 a b = l at *
  generalize hi2 a b = h at *
  generalize lo2 a' b' = l' at *
  generalize hi2 a' b' = h' at *
  cases x with
  | none => simp [grossAt, overrides, outside, vlt, vgt, c16a_ok]
  | some v =>
    simp only [grossAt, overrides, outside, vlt, vgt, List.foldl]
    by_cases h1 : v < l <;> by_cases h2 : h < v <;> by_cases h3 : v < l' <;> by_cases h4 : h' < v <;>
      by_cases h5 : v < u'.1 <;> by_cases h6 : u'.2 < v <;>
      simp [h1, h2, h3, h4, h5, h6, c16a_ok] <;> grind

/-- both calls have a suspect span: both spans shrink. -/
theorem c16a_grossAt_ss (a b a' b' c d c' d' : Rat) (x : V)
    (hn : nested (a', b') (a, b) = true) (hq : nested (c', d') (c, d) = true) :
    c16a_ok (grossAt (sort2 a b) (some (sort2 c d)) x)
      (grossAt (sort2 a' b') (some (sort2 c' d')) x) = true := by
  simp only [nested, Bool.and_eq_true, decide_eq_true_eq] at hn hq
  rw [sort2_eq, sort2_eq, sort2_eq, sort2_eq]
  generalize lo2 a b = l at *
  generalize hi2 a b = h at *
  generalize lo2 a' b' = l' at *
  generalize hi2 a' b' = h' at *
  generalize lo2 c d = m at *
  generalize hi2 c d = k at *
  generalize lo2 c' d' = m' at *
  generalize hi2 c' d' = k' at *
  cases x with
  | none => simp [grossAt, overrides, outside, vlt, vgt, c16a_ok]
  | some v =>
    simp only [grossAt, overrides, outside, vlt, vgt, List.foldl]
    by_cases h1 : v < l <;> by_cases h2 : h < v <;> by_cases h3 : v < l' <;> by_cases h4 : h' < v <;>
      by_cases h5 : v < m <;> by_cases h6 : k < v <;> by_cases h7 : v < m' <;> by_cases h8 : k' < v <;>
      simp [h1, h2, h3, h4, h5, h6, h7, h8, c16a_ok] <;> grind

/-- C16, gross_range_test.  `stricter` demands well-formed spans with suspect ⊆ fail in both
    calls (so neither raises), new fail ⊆ old fail, new suspect ⊆ old suspect (or a suspect
    span added). -/
theorem C16_gross (f : SeqArg) (s : Option SeqArg) (inp : List V)
    (f' : SeqArg) (s' : Option SeqArg) (inp' : List V)
    (hs : stricter (.gross f s inp) (.gross f' s' inp') = true) :
    C16.holds (grossRange f s inp).toObs (grossRange f' s' inp').toObs = true := by
  simp only [stricter, Bool.and_eq_true, decide_eq_true_eq] at hs
  obtain ⟨⟨⟨⟨⟨hinp, hf⟩, hf'⟩, hsq⟩, hsq'⟩, hm⟩ := hs
  subst hinp
  cases hp : seqPair f with
  | none => simp [hp] at hm
  | some p =>
  cases hp' : seqPair f' with
  | none => simp [hp, hp'] at hm
  | some p' =>
  obtain ⟨a, b⟩ := p
  obtain ⟨a', b'⟩ := p'
  have hv := c16a_seqPair_some f _ hp
  have hv' := c16a_seqPair_some f' _ hp'
  simp only [hp, hp', Bool.and_eq_true] at hm
  obtain ⟨hn, hm⟩ := hm
  cases s with
  | none =>
    cases s' with
    | none =>
      rw [c16a_grossRange_none f a b inp hf hv, c16a_grossRange_none f' a' b' inp hf' hv']
      exact c16a_holds_map _ _ _ (fun x _ => c16a_grossAt_nn a b a' b' x hn)
    | some u' =>
      cases hq' : seqPair u' with
      | none => simp [hq'] at hm
      | some q' =>
        obtain ⟨c', d'⟩ := q'
        have hsv' := c16a_seqPair_some u' _ hq'
        simp only [hq'] at hm
        simp only [Option.all_some] at hsq'
        rw [c16a_grossRange_none f a b inp hf hv,
          c16a_grossRange_some f' u' a' b' c' d' inp hf' hv' hsq' hsv' hm]
        exact c16a_holds_map _ _ _ (fun x _ => c16a_grossAt_ns a b a' b' _ x hn)
  | some u =>
    cases s' with
    | none => simp at hm
    | some u' =>
      cases hq : seqPair u with
      | none => simp [hq] at hm
      | some q =>
      cases hq' : seqPair u' with
      | none => simp [hq, hq'] at hm
      | some q' =>
        obtain ⟨c, d⟩ := q
        obtain ⟨c', d'⟩ := q'
        have hsv := c16a_seqPair_some u _ hq
        have hsv' := c16a_seqPair_some u' _ hq'
        simp only [hq, hq', Bool.and_eq_true] at hm
        obtain ⟨⟨hqq, hqp⟩, hqp'⟩ := hm
        simp only [Option.all_some] at hsq hsq'
        rw [c16a_grossRange_some f u a b c d inp hf hv hsq hsv hqp,
          c16a_grossRange_some f' u' a' b' c' d' inp hf' hv' hsq' hsv' hqp']
        exact c16a_holds_map _ _ _ (fun x _ => c16a_grossAt_ss a b a' b' c d c' d' x hn hqq)

/-! ### axds.valid_range_test -/

theorem c16a_validAt (lo hi : V) (si ei : Bool) (lo' hi' : V) (si' ei' : Bool) (x : V)
    (hl : lowerStricter lo' si' lo si = true) (hu : upperStricter hi' ei' hi ei = true) :
    c16a_ok (validAt lo hi si ei x) (validAt lo' hi' si' ei' x) = true := by
  cases x with
  | none => simp [validAt, overrides, List.foldl, c16a_ok]
  | some v =>
    have key : ∀ (p q p' q' : Bool), (p = true → p' = true) → (q = true → q' = true) →
        c16a_ok (overrides .good [(p, .fail), (q, .fail), ((some v : V).isNone, .missing)])
          (overrides .good [(p', .fail), (q', .fail), ((some v : V).isNone, .missing)]) = true := by
      intro p q p' q' h1 h2
      cases p <;> cases q <;> cases p' <;> cases q' <;> simp_all [overrides, List.foldl, c16a_ok]
    unfold validAt
    apply key
    · cases lo <;> cases lo' <;> cases si <;> cases si' <;>
        simp_all [lowerStricter, vlt, vle] <;> grind
    · cases hi <;> cases hi' <;> cases ei <;> cases ei' <;>
        simp_all [upperStricter, vgt, vge] <;> grind

/-- C16, valid_range_test: each bound moves inwards (or is added; or stays with an inclusive
    bound made exclusive). -/
theorem C16_valid (lo hi : V) (si ei : Bool) (inp : List V) (lo' hi' : V) (si' ei' : Bool)
    (inp' : List V)
    (hs : stricter (.valid lo hi si ei inp) (.valid lo' hi' si' ei' inp') = true) :
    C16.holds (validRange lo hi si ei inp).toObs (validRange lo' hi' si' ei' inp').toObs = true := by
  simp only [stricter, Bool.and_eq_true, decide_eq_true_eq] at hs
  obtain ⟨⟨hinp, hl⟩, hu⟩ := hs
  subst hinp
  unfold validRange
  exact c16a_holds_map _ _ _ (fun x _ => c16a_validAt lo hi si ei lo' hi' si' ei' x hl hu)

/-! ### location_test -/

theorem c16a_locationTest_ok (lon lat : List V) (bbox : SeqArg) (r : Option Rat) (hops : List V)
    (x0 y0 x1 y1 : Rat) (hseq : bbox.isSeq = true) (hv : bbox.vals = [x0, y0, x1, y1])
    (hl : lon.length = lat.length) :
    locationTest lon lat bbox r hops = .ok ((List.range lon.length).map fun i =>
      locationAt ⟨x0, y0, x1, y1⟩ r lon.length (getV lon i) (getV lat i) (hopAt hops i)) := by
  simp [locationTest, fixedLength, hseq, hv, hl, bind, Except.bind, pure, Except.pure]

/-- One position.  `hd`: where a coordinate is missing the hop is missing or 0 (the first
    point), so with non-negative limits the hop rule does not fire there. -/
theorem c16a_locationAt (b b' : Box) (r r' : Option Rat) (n : Nat) (lon lat d : V)
    (hx0 : b.minx ≤ b'.minx) (hy0 : b.miny ≤ b'.miny) (hx1 : b'.maxx ≤ b.maxx) (hy1 : b'.maxy ≤ b.maxy)
    (hr : optLe r' r = true)
    (hr0 : ∀ q, r = some q → 0 ≤ q) (hr0' : ∀ q, r' = some q → 0 ≤ q)
    (hd : lon = none ∨ lat = none → d = none ∨ d = some 0) :
    c16a_ok (locationAt b r n lon lat d) (locationAt b' r' n lon lat d) = true := by
  unfold locationAt overrides outsideBox vlt vgt
  cases lon <;> cases lat <;> cases d <;> cases r <;> cases r' <;>
    simp_all [List.foldl, optLe, c16a_ok] <;> grind

/-- C16, location_test: the box shrinks (component-wise) and `range_max` decreases or is added.
    Needs equal lengths (else both calls raise) and the domain predicate (hop list consistent with
    the track, `range_max ≥ 0`): see `c16a_location_needs_inDom_hops`, `c16a_location_needs_inDom_range`,
    `c16a_location_needs_len`. -/
theorem C16_location (lon lat : List V) (b : SeqArg) (r : Option Rat) (h : List V)
    (lon' lat' : List V) (b' : SeqArg) (r' : Option Rat) (h' : List V)
    (hs : stricter (.location lon lat b r h) (.location lon' lat' b' r' h') = true)
    (hd : (TestCall.location lon lat b r h).inDom = true)
    (hd' : (TestCall.location lon' lat' b' r' h').inDom = true)
    (hlen : lon.length = lat.length) :
    C16.holds (locationTest lon lat b r h).toObs (locationTest lon' lat' b' r' h').toObs = true := by
  simp only [stricter, Bool.and_eq_true, decide_eq_true_eq] at hs
  obtain ⟨⟨⟨⟨⟨⟨hlon, hlat⟩, hh⟩, hseq⟩, hseq'⟩, hbox⟩, hr⟩ := hs
  subst hlon; subst hlat; subst hh
  have hcons := hcons_of_consistent lon lat h (by
    simp only [TestCall.inDom, Bool.and_eq_true] at hd; exact hd.1.2)
  have hr0 : ∀ q, r = some q → 0 ≤ q := by
    intro q hq; subst hq; simp [TestCall.inDom] at hd; exact hd.2
  have hr0' : ∀ q, r' = some q → 0 ≤ q := by
    intro q hq; subst hq; simp [TestCall.inDom] at hd'; exact hd'.2
  split at hbox
  next x0 y0 x1 y1 x0' y0' x1' y1' hv hv' =>
    simp only [Bool.and_eq_true, decide_eq_true_eq] at hbox
    obtain ⟨⟨⟨h1, h2⟩, h3⟩, h4⟩ := hbox
    rw [c16a_locationTest_ok lon lat b r h x0 y0 x1 y1 hseq hv hlen,
      c16a_locationTest_ok lon lat b' r' h x0' y0' x1' y1' hseq' hv' hlen]
    apply c16a_holds_range
    intro i _
    apply c16a_locationAt _ _ r r' _ _ _ _ h1 h2 h3 h4 hr hr0 hr0'
    intro hnone
    cases i with
    | zero => right; simp [hopAt]
    | succ k =>
      left
      have := hcons k (by
        rcases hnone with hn | hn
        · right; right; left; simp [hn]
        · right; right; right; simp [hn])
      simpa [hopAt] using this
  next => simp at hbox

/-! ### climatology_test -/

/-- Value span and fail span of every member are sorted, as `ClimatologyConfig.add` leaves them. -/
def c16a_membersSorted (ms : List Member) : Prop :=
  ∀ m ∈ ms, m.vspan.1 ≤ m.vspan.2 ∧ ∀ f, m.fspan = some f → f.1 ≤ f.2

theorem c16a_covers_eq (periodOf : Period → Int → Int) (n o : Member) (t : Int) (z : V)
    (h : memberStricter n o = true) : memberCovers periodOf n t z = memberCovers periodOf o t z := by
  simp only [memberStricter, Bool.and_eq_true, decide_eq_true_eq] at h
  obtain ⟨⟨⟨⟨h1, h2⟩, h3⟩, _⟩, _⟩ := h
  unfold memberCovers memberTime
  rw [h1, h2, h3]

/-- Classification by a stricter member is at least as severe (old spans sorted). -/
theorem c16a_classify (n o : Member) (v : Rat) (h : memberStricter n o = true)
    (hv : o.vspan.1 ≤ o.vspan.2) (hf : ∀ f, o.fspan = some f → f.1 ≤ f.2) :
    c16a_ok (classify o v) (classify n v) = true := by
  simp only [memberStricter, Bool.and_eq_true, decide_eq_true_eq] at h
  obtain ⟨⟨_, hvn⟩, hfn⟩ := h
  obtain ⟨nt, nv, nf, nz, np⟩ := n
  obtain ⟨ot, ov, off, oz, op⟩ := o
  obtain ⟨nv1, nv2⟩ := nv
  obtain ⟨ov1, ov2⟩ := ov
  simp only [nested, lo2, hi2, Bool.and_eq_true, decide_eq_true_eq] at hvn
  simp only at hv hf
  have hs : (v < ov1 ∨ ov2 < v) → (v < nv1 ∨ nv2 < v) := by grind
  cases off with
  | none =>
    simp only [classify]
    by_cases h1 : (match nf with | some f => decide (v < f.1 ∨ f.2 < v) | none => false) = true <;>
      by_cases h2 : v < ov1 ∨ ov2 < v <;> by_cases h3 : v < nv1 ∨ nv2 < v <;>
      simp [h1, h2, h3, c16a_ok] <;> grind
  | some fo =>
    cases nf with
    | none => simp [optNested] at hfn
    | some fn =>
      obtain ⟨fo1, fo2⟩ := fo
      obtain ⟨fn1, fn2⟩ := fn
      have hfo := hf _ rfl
      simp only [optNested, nested, lo2, hi2, Bool.and_eq_true, decide_eq_true_eq] at hfn
      simp only at hfo
      have hff : (v < fo1 ∨ fo2 < v) → (v < fn1 ∨ fn2 < v) := by grind
      simp only [classify]
      by_cases h1 : v < fo1 ∨ fo2 < v <;> by_cases h4 : v < fn1 ∨ fn2 < v <;>
        by_cases h2 : v < ov1 ∨ ov2 < v <;> by_cases h3 : v < nv1 ∨ nv2 < v <;>
        simp [h1, h2, h3, h4, c16a_ok] <;> grind

/-- The two member loops in lock-step, from related accumulators. -/
theorem c16a_fold (periodOf : Period → Int → Int) (t : Int) (z : V) (v : Rat) :
    ∀ (ms ms' : List Member), membersStricter ms' ms = true → c16a_membersSorted ms →
    ∀ (acc acc' : Flag), c16a_ok acc acc' = true →
    c16a_ok
      (ms.foldl (fun acc m => if memberCovers periodOf m t z then classify m v else acc) acc)
      (ms'.foldl (fun acc m => if memberCovers periodOf m t z then classify m v else acc) acc') = true := by
  intro ms
  induction ms with
  | nil =>
    intro ms' h _ acc acc' ha
    cases ms' with
    | nil => simpa using ha
    | cons _ _ => simp [membersStricter] at h
  | cons o os ih =>
    intro ms' h hsorted acc acc' ha
    cases ms' with
    | nil => simp [membersStricter] at h
    | cons n ns =>
      simp only [membersStricter, Bool.and_eq_true] at h
      obtain ⟨hm, hrest⟩ := h
      simp only [List.foldl_cons]
      apply ih ns hrest (fun m hmem => hsorted m (by simp [hmem]))
      rw [c16a_covers_eq periodOf n o t z hm]
      cases memberCovers periodOf o t z with
      | false => simpa using ha
      | true =>
        simp only [if_true]
        have := hsorted o (by simp)
        exact c16a_classify n o v hm this.1 this.2

theorem c16a_climAt (periodOf : Period → Int → Int) (ms ms' : List Member) (noDepth : Bool)
    (t : Int) (x z : V) (hz : noDepth = true → z = none)
    (h : membersStricter ms' ms = true) (hsorted : c16a_membersSorted ms) :
    c16a_ok (climAt periodOf ms noDepth t x z) (climAt periodOf ms' noDepth t x z) = true := by
  cases x with
  | none => simp [climAt_missing, c16a_ok]
  | some v =>
    have e : ∀ l : List Member, climAt periodOf l noDepth t (some v) z =
        l.foldl (fun acc m => if memberCovers periodOf m t z then classify m v else acc)
          Flag.unknown := by
      intro l
      rw [climAt_present periodOf l noDepth t v z hz, foldl_last_wins]
      cases (l.filter fun m => memberCovers periodOf m t z).getLast? <;> rfl
    rw [e ms, e ms']
    exact c16a_fold periodOf t z v ms ms' h hsorted _ _ rfl

/-- C16, climatology_test: member by member the same time / depth / period selection, value span
    and fail span shrink (or a fail span is added).  Needs the old members' spans sorted
    (`c16a_climatology_needs_sorted`). -/
theorem C16_climatology (periodOf : Period → Int → Int) (ms : List Member) (inp : List V)
    (t : List Int) (z : List V) (ms' : List Member) (inp' : List V) (t' : List Int) (z' : List V)
    (hs : stricter (.climatology ms inp t z) (.climatology ms' inp' t' z') = true)
    (hsorted : c16a_membersSorted ms) :
    C16.holds (climatologyTest periodOf ms inp t z).toObs
      (climatologyTest periodOf ms' inp' t' z').toObs = true := by
  simp only [stricter, Bool.and_eq_true, decide_eq_true_eq] at hs
  obtain ⟨⟨⟨hinp, ht⟩, hz⟩, hm⟩ := hs
  subst hinp; subst ht; subst hz
  unfold climatologyTest
  exact c16a_holds_range _ _ _ (fun i _ =>
    c16a_climAt periodOf ms ms' _ _ _ _ (fun hall => getV_of_all_none z i hall) hm hsorted)

/-! ### spike_test -/

theorem c16a_spikeAt (m : SpikeMethod) (s f s' f' : Option Rat) (xs : List V) (i : Nat)
    (hs : optLe s' s = true) (hf : optLe f' f = true) :
    c16a_ok (spikeAt m s f xs i) (spikeAt m s' f' xs i) = true := by
  unfold spikeAt overrides
  generalize spikeDiff m xs i = d
  by_cases h0 : i = 0 <;> by_cases hn : i + 1 = xs.length <;>
    cases d <;> cases s <;> cases s' <;> cases f <;> cases f' <;>
    simp_all [List.foldl, optLe, vgt, c16a_ok] <;> grind

/-- C16, spike_test: each threshold decreases or is added.  In particular adding a suspect
    threshold never downgrades a FAIL. -/
theorem C16_spike (m : String) (s f : Option Rat) (inp : List V)
    (m' : String) (s' f' : Option Rat) (inp' : List V)
    (hs : stricter (.spike m s f inp) (.spike m' s' f' inp') = true)
    (hm : m = "average" ∨ m = "differential") :
    C16.holds (spikeTest m s f inp).toObs (spikeTest m' s' f' inp').toObs = true := by
  simp only [stricter, Bool.and_eq_true, decide_eq_true_eq] at hs
  obtain ⟨⟨⟨hmm, hinp⟩, hs1⟩, hs2⟩ := hs
  subst hmm; subst hinp
  unfold spikeTest
  rcases hm with hm | hm <;> subst hm
  · simp only [if_true]
    exact c16a_holds_range _ _ _ (fun i _ => c16a_spikeAt .average s f s' f' inp i hs1 hs2)
  · have : ¬ ("differential" = "average") := by decide
    simp only [this, if_false, if_true]
    exact c16a_holds_range _ _ _ (fun i _ => c16a_spikeAt .differential s f s' f' inp i hs1 hs2)

/-! ### Why the extra hypotheses are needed (machine-checked counterexamples) -/

/-- Climatology with an UNSORTED old value span `(10, 0)`: `nested` reads it as the interval
    [0, 10] and accepts the new span `(0, 10)` as stricter, but the model (like the code, which
    only ever sees spans sorted by `ClimatologyConfig.add`) compares `x < 10 ∨ x > 0`, flags
    every value SUSPECT, and the "stricter" run improves 4 from SUSPECT to GOOD. -/
theorem c16a_climatology_needs_sorted :
    stricter (.climatology [⟨(0, 100), (10, 0), none, none, none⟩] [some 4] [5] [none])
             (.climatology [⟨(0, 100), (0, 10), none, none, none⟩] [some 4] [5] [none]) = true ∧
    (climatologyTest IoosQc.periodOf [⟨(0, 100), (10, 0), none, none, none⟩] [some 4] [5] [none]).toObs
      = .flags [3] ∧
    (climatologyTest IoosQc.periodOf [⟨(0, 100), (0, 10), none, none, none⟩] [some 4] [5] [none]).toObs
      = .flags [1] ∧
    C16.holds
      (climatologyTest IoosQc.periodOf [⟨(0, 100), (10, 0), none, none, none⟩] [some 4] [5] [none]).toObs
      (climatologyTest IoosQc.periodOf [⟨(0, 100), (0, 10), none, none, none⟩] [some 4] [5] [none]).toObs
      = false := by
  decide +kernel

/-- Location outside the domain, hop list inconsistent with the track (a distance to an entirely
    missing position): adding `range_max` turns that MISSING point into SUSPECT. -/
theorem c16a_location_needs_inDom_hops :
    stricter (.location [some 0, none] [some 0, none] ⟨true, [-10, -10, 10, 10]⟩ none [some 5])
             (.location [some 0, none] [some 0, none] ⟨true, [-10, -10, 10, 10]⟩ (some 1) [some 5]) = true ∧
    (TestCall.location [some 0, none] [some 0, none] ⟨true, [-10, -10, 10, 10]⟩ (some 1) [some 5]).inDom = false ∧
    (locationTest [some 0, none] [some 0, none] ⟨true, [-10, -10, 10, 10]⟩ none [some 5]).toObs = .flags [1, 9] ∧
    (locationTest [some 0, none] [some 0, none] ⟨true, [-10, -10, 10, 10]⟩ (some 1) [some 5]).toObs = .flags [1, 3] ∧
    C16.holds
      (locationTest [some 0, none] [some 0, none] ⟨true, [-10, -10, 10, 10]⟩ none [some 5]).toObs
      (locationTest [some 0, none] [some 0, none] ⟨true, [-10, -10, 10, 10]⟩ (some 1) [some 5]).toObs = false := by
  decide +kernel

/-- Location with the OLD call in the domain and the new one not (negative `range_max` added):
    the first point, whose hop is 0, goes from MISSING to SUSPECT.  So `hd'` cannot be dropped. -/
theorem c16a_location_needs_inDom_range :
    stricter (.location [none, some 0] [none, some 0] ⟨true, [-10, -10, 10, 10]⟩ none [none])
             (.location [none, some 0] [none, some 0] ⟨true, [-10, -10, 10, 10]⟩ (some (-1)) [none]) = true ∧
    (TestCall.location [none, some 0] [none, some 0] ⟨true, [-10, -10, 10, 10]⟩ none [none]).inDom = true ∧
    (TestCall.location [none, some 0] [none, some 0] ⟨true, [-10, -10, 10, 10]⟩ (some (-1)) [none]).inDom = false ∧
    (locationTest [none, some 0] [none, some 0] ⟨true, [-10, -10, 10, 10]⟩ none [none]).toObs = .flags [9, 1] ∧
    (locationTest [none, some 0] [none, some 0] ⟨true, [-10, -10, 10, 10]⟩ (some (-1)) [none]).toObs = .flags [3, 1] ∧
    C16.holds
      (locationTest [none, some 0] [none, some 0] ⟨true, [-10, -10, 10, 10]⟩ none [none]).toObs
      (locationTest [none, some 0] [none, some 0] ⟨true, [-10, -10, 10, 10]⟩ (some (-1)) [none]).toObs = false := by
  decide +kernel

/-- Location with unequal lengths: `stricter` and `inDom` hold, both calls raise, and `C16.holds`
    is false on errors.  So `hlen` cannot be dropped. -/
theorem c16a_location_needs_len :
    stricter (.location [some 0] [] ⟨true, [-10, -10, 10, 10]⟩ none [])
             (.location [some 0] [] ⟨true, [-10, -10, 10, 10]⟩ none []) = true ∧
    (TestCall.location [some 0] [] ⟨true, [-10, -10, 10, 10]⟩ none []).inDom = true ∧
    (locationTest [some 0] [] ⟨true, [-10, -10, 10, 10]⟩ none []).toObs = .error .value ∧
    C16.holds (locationTest [some 0] [] ⟨true, [-10, -10, 10, 10]⟩ none []).toObs
      (locationTest [some 0] [] ⟨true, [-10, -10, 10, 10]⟩ none []).toObs = false := by
  decide +kernel

/-- Spike with an unknown method: `stricter` holds, both calls raise.  So `hm` cannot be dropped. -/
theorem c16a_spike_needs_method :
    stricter (.spike "median" none none [some 0]) (.spike "median" none none [some 0]) = true ∧
    C16.holds (spikeTest "median" none none [some 0]).toObs
      (spikeTest "median" none none [some 0]).toObs = false := by
  decide +kernel

/-! ### Non-vacuity: concrete stricter pairs on which flags strictly worsen -/

/-- gross: fail span [0,10] → [0,8] (given reversed), suspect span [2,6] added:
    GOOD→SUSPECT at 1, GOOD→FAIL at 9; FAIL and MISSING stay. -/
example :
    stricter (.gross ⟨true, [0, 10]⟩ none [some (-1), some 1, some 5, none, some 9, some 11])
      (.gross ⟨true, [8, 0]⟩ (some ⟨true, [6, 2]⟩) [some (-1), some 1, some 5, none, some 9, some 11]) = true ∧
    (grossRange ⟨true, [0, 10]⟩ none [some (-1), some 1, some 5, none, some 9, some 11]).toObs
      = .flags [4, 1, 1, 9, 1, 4] ∧
    (grossRange ⟨true, [8, 0]⟩ (some ⟨true, [6, 2]⟩) [some (-1), some 1, some 5, none, some 9, some 11]).toObs
      = .flags [4, 3, 1, 9, 4, 4] := by
  decide +kernel

example : C16.holds
    (grossRange ⟨true, [0, 10]⟩ none [some (-1), some 1, some 5, none, some 9, some 11]).toObs
    (grossRange ⟨true, [8, 0]⟩ (some ⟨true, [6, 2]⟩) [some (-1), some 1, some 5, none, some 9, some 11]).toObs
      = true := by
  apply C16_gross
  decide +kernel

/-- valid range: lower bound 0 made exclusive, upper bound 5 (exclusive) added: GOOD→FAIL at both. -/
example :
    stricter (.valid (some 0) none true true [some 0, some 5, none, some (-1)])
      (.valid (some 0) (some 5) false false [some 0, some 5, none, some (-1)]) = true ∧
    (validRange (some 0) none true true [some 0, some 5, none, some (-1)]).toObs = .flags [1, 1, 9, 4] ∧
    (validRange (some 0) (some 5) false false [some 0, some 5, none, some (-1)]).toObs
      = .flags [4, 4, 9, 4] := by
  decide +kernel

example : C16.holds (validRange (some 0) none true true [some 0, some 5, none, some (-1)]).toObs
    (validRange (some 0) (some 5) false false [some 0, some 5, none, some (-1)]).toObs = true := by
  apply C16_valid
  decide +kernel

/-- location: box ±10 → ±8, `range_max` 6 added: GOOD→SUSPECT (hop 7), GOOD→FAIL (lon 9);
    FAIL (one coordinate missing) and MISSING stay.  All hypotheses of `C16_location` hold. -/
example :
    stricter
      (.location [some 0, some 5, some 9, none, none] [some 0, some 5, some 0, some 3, none]
        ⟨true, [-10, -10, 10, 10]⟩ none [some 7, some 6, none, none])
      (.location [some 0, some 5, some 9, none, none] [some 0, some 5, some 0, some 3, none]
        ⟨true, [-8, -8, 8, 8]⟩ (some 6) [some 7, some 6, none, none]) = true ∧
    (TestCall.location [some 0, some 5, some 9, none, none] [some 0, some 5, some 0, some 3, none]
        ⟨true, [-10, -10, 10, 10]⟩ none [some 7, some 6, none, none]).inDom = true ∧
    (TestCall.location [some 0, some 5, some 9, none, none] [some 0, some 5, some 0, some 3, none]
        ⟨true, [-8, -8, 8, 8]⟩ (some 6) [some 7, some 6, none, none]).inDom = true ∧
    (locationTest [some 0, some 5, some 9, none, none] [some 0, some 5, some 0, some 3, none]
        ⟨true, [-10, -10, 10, 10]⟩ none [some 7, some 6, none, none]).toObs = .flags [1, 1, 1, 4, 9] ∧
    (locationTest [some 0, some 5, some 9, none, none] [some 0, some 5, some 0, some 3, none]
        ⟨true, [-8, -8, 8, 8]⟩ (some 6) [some 7, some 6, none, none]).toObs = .flags [1, 3, 4, 4, 9] := by
  decide +kernel

example : C16.holds
    (locationTest [some 0, some 5, some 9, none, none] [some 0, some 5, some 0, some 3, none]
        ⟨true, [-10, -10, 10, 10]⟩ none [some 7, some 6, none, none]).toObs
    (locationTest [some 0, some 5, some 9, none, none] [some 0, some 5, some 0, some 3, none]
        ⟨true, [-8, -8, 8, 8]⟩ (some 6) [some 7, some 6, none, none]).toObs = true := by
  apply C16_location <;> decide +kernel

/-- climatology: value span [0,10] → [2,8], fail span [0,10] added: GOOD→SUSPECT at 9,
    SUSPECT→FAIL at 12; MISSING and the uncovered point (UNKNOWN) stay. -/
example :
    stricter
      (.climatology [⟨(0, 100), (0, 10), none, none, none⟩]
        [some 4, some 9, some 12, none, some 4] [5, 6, 7, 8, 200] [none, none, none, none, none])
      (.climatology [⟨(0, 100), (2, 8), some (0, 10), none, none⟩]
        [some 4, some 9, some 12, none, some 4] [5, 6, 7, 8, 200] [none, none, none, none, none]) = true ∧
    (climatologyTest IoosQc.periodOf [⟨(0, 100), (0, 10), none, none, none⟩]
        [some 4, some 9, some 12, none, some 4] [5, 6, 7, 8, 200] [none, none, none, none, none]).toObs
      = .flags [1, 1, 3, 9, 2] ∧
    (climatologyTest IoosQc.periodOf [⟨(0, 100), (2, 8), some (0, 10), none, none⟩]
        [some 4, some 9, some 12, none, some 4] [5, 6, 7, 8, 200] [none, none, none, none, none]).toObs
      = .flags [1, 3, 4, 9, 2] := by
  decide +kernel

example : C16.holds
    (climatologyTest IoosQc.periodOf [⟨(0, 100), (0, 10), none, none, none⟩]
        [some 4, some 9, some 12, none, some 4] [5, 6, 7, 8, 200] [none, none, none, none, none]).toObs
    (climatologyTest IoosQc.periodOf [⟨(0, 100), (2, 8), some (0, 10), none, none⟩]
        [some 4, some 9, some 12, none, some 4] [5, 6, 7, 8, 200] [none, none, none, none, none]).toObs
      = true := by
  apply C16_climatology
  · decide +kernel
  · intro m hm
    simp only [List.mem_singleton] at hm
    subst hm
    exact ⟨by decide +kernel, fun f hf => by simp at hf⟩

/-- spike (average): suspect threshold 2 added, fail threshold 5 → 4: GOOD→SUSPECT at the
    spike of 3, the FAILs stay FAIL, end points UNKNOWN and the gap MISSING stay. -/
example :
    stricter (.spike "average" none (some 5) [some 0, some 0, some 3, some 0, some 10, some 0, none, some 0])
      (.spike "average" (some 2) (some 4) [some 0, some 0, some 3, some 0, some 10, some 0, none, some 0]) = true ∧
    (spikeTest "average" none (some 5) [some 0, some 0, some 3, some 0, some 10, some 0, none, some 0]).toObs
      = .flags [2, 1, 1, 4, 4, 9, 9, 2] ∧
    (spikeTest "average" (some 2) (some 4) [some 0, some 0, some 3, some 0, some 10, some 0, none, some 0]).toObs
      = .flags [2, 1, 3, 4, 4, 9, 9, 2] := by
  decide +kernel

example : C16.holds
    (spikeTest "average" none (some 5) [some 0, some 0, some 3, some 0, some 10, some 0, none, some 0]).toObs
    (spikeTest "average" (some 2) (some 4) [some 0, some 0, some 3, some 0, some 10, some 0, none, some 0]).toObs
      = true := by
  apply C16_spike
  · decide +kernel
  · exact Or.inl rfl

end IoosQc
