/-
  IoosQc.Theorems.NpSrc5 — `climatology_test` / `ClimatologyConfig.check`: the source-shaped
  transcription (a `for` loop over the members with a `continue`, masked / plain boolean index
  algebra, three ordered assignments per member, the closing MISSING assignment) equals the
  pointwise model `climatologyTest`.

    C08_src_climatology    NpSrc.climatology_test = climatologyTest      (time, data and depth columns of one length)
-/
import IoosQc.Model.NpSrc
import IoosQc.Theorems.NpRefine
import IoosQc.Theorems.NpSrc2
set_option linter.unusedSimpArgs false
set_option linter.unusedVariables false

namespace IoosQc.NpSrc
open IoosQc.Np

theorem forIn_eq_foldl_of_pure {α β ε : Type} (l : List α) (init : β) (f : α → β → Except ε (ForInStep β)) (g : α → β → β)
    (h : ∀ a b, f a b = pure (ForInStep.yield (g a b))) : forIn l init f = pure (l.foldl (fun b a => g a b) init) := by
  induction l generalizing init with
  | nil => simp
  | cons a l ih => simp [List.forIn_cons, h, ih]

/-- one pass of the member loop, as a pure function of the flag array -/
def climStep (periodOf : Period → Int → Int) (tinp : List Int) (inp zinp : MArr) (fl : List Flag) (m : Member) : List Flag :=
  if m.zspan.isSome && noneUnmasked zinp then fl
  else
    let tcopy := match m.period with
      | some p => if p = Period.week then isoWeekOf periodOf tinp else attrOf periodOf p tinp
      | none => asInstants tinp
    let t_idx := band (geR tcopy m.tspan.1) (leR tcopy m.tspan.2)
    let z_idx := match m.zspan with
      | some zs => andB (andB (plainB (notP (maskOf zinp))) (geS zinp zs.1)) (leS zinp zs.2)
      | none => zipMask (notP (isnanData inp)) (maskOf inp)
    let values_idx := andB (plainB t_idx) z_idx
    let fail_idx := match m.fspan with
      | some f => bor (ltS inp f.1) (gtS inp f.2)
      | none => plainB (List.replicate inp.length false)
    let suspect_idx := bor (ltS inp m.vspan.1) (gtS inp m.vspan.2)
    let fl := setWhereB fl (andB values_idx fail_idx) .fail
    let fl := setWhereB fl (andB (andB values_idx (notB fail_idx)) suspect_idx) .suspect
    setWhereB fl (andB (andB values_idx (notB fail_idx)) (notB suspect_idx)) .good

theorem check_eq_foldl (periodOf : Period → Int → Int) (ms : List Member) (tinp : List Int) (inp zinp : MArr) :
    climatology_check periodOf ms tinp inp zinp
      = pure (setWhere (ms.foldl (climStep periodOf tinp inp zinp)
          (setWhere (fillFlags (emptyFlags inp.length) .unknown) (maskOf inp) .missing)) (maskOf inp) .missing) := by
  unfold climatology_check
  dsimp only
  rw [forIn_eq_foldl_of_pure _ _ _ (fun m r => climStep periodOf tinp inp zinp r m)]
  · simp
  · intro m r
    rcases m with ⟨ts, vs, fs, zs, per⟩
    cases per <;> cases zs <;> cases fs <;> simp [climStep] <;> (repeat' split) <;> simp_all

/-! ### index lemmas -/

theorem getElem?_andB (a b : BArr) (i : Nat) :
    (andB a b)[i]? = match a[i]?, b[i]? with | some x, some y => some ⟨x.d && y.d, x.m || y.m⟩ | _, _ => none := by
  simp only [andB, List.getElem?_zipWith]; cases a[i]? <;> cases b[i]? <;> rfl
theorem getElem?_notB (a : BArr) (i : Nat) : (notB a)[i]? = (a[i]?).map fun x => ⟨!x.d, x.m⟩ := by simp [notB]
theorem getElem?_plainB (c : List Bool) (i : Nat) : (plainB c)[i]? = (c[i]?).map fun b => ⟨b, false⟩ := by simp [plainB]
theorem getElem?_notP (c : List Bool) (i : Nat) : (notP c)[i]? = (c[i]?).map (!·) := by simp [notP]
theorem getElem?_zipMask (d m : List Bool) (i : Nat) :
    (zipMask d m)[i]? = match d[i]?, m[i]? with | some x, some y => some ⟨x, y⟩ | _, _ => none := by
  simp only [zipMask, List.getElem?_zipWith]; cases d[i]? <;> cases m[i]? <;> rfl
theorem getElem?_isnanData (a : MArr) (i : Nat) : (isnanData a)[i]? = (a[i]?).map (·.d.isNan) := by simp [isnanData]
theorem getElem?_geR (t : List Rat) (r : Rat) (i : Nat) : (geR t r)[i]? = (t[i]?).map fun x => decide (r ≤ x) := by simp [geR]
theorem getElem?_leR (t : List Rat) (r : Rat) (i : Nat) : (leR t r)[i]? = (t[i]?).map fun x => decide (x ≤ r) := by simp [leR]

theorem noneUnmasked_eq (a : MArr) : noneUnmasked a = a.all (·.m) := by
  have h : ((a.filter (!·.m)).length == 0) = a.all (·.m) := by
    induction a with
    | nil => rfl
    | cons c a ih =>
      cases hc : c.m
      · simp [List.filter_cons, hc]
      · simpa [List.filter_cons, hc] using ih
  simp only [noneUnmasked, h, Bool.or_self]

theorem noneUnmasked_ofInput (zs : List V) : noneUnmasked (ofInput zs) = zs.all Option.isNone := by
  rw [noneUnmasked_eq]
  induction zs with
  | nil => rfl
  | cons z zs ih => simp only [ofInput, List.map_cons, List.all_cons] at ih ⊢; rw [ih]; cases z <;> rfl

def tvOf (periodOf : Period → Int → Int) (m : Member) (t : Int) : Rat :=
  match m.period with | some p => ((periodOf p t : Int) : Rat) | none => ((t : Int) : Rat)

theorem getElem?_tcopy (periodOf : Period → Int → Int) (m : Member) (ts : List Int) (i : Nat) (hi : i < ts.length) :
    (match m.period with
      | some p => if p = Period.week then isoWeekOf periodOf ts else attrOf periodOf p ts
      | none => asInstants ts)[i]? = some (tvOf periodOf m (ts.getD i 0)) := by
  have ht : ts[i]? = some ts[i] := List.getElem?_eq_getElem hi
  have hg : ts.getD i 0 = ts[i] := by rw [List.getD_eq_getElem?_getD, ht]; rfl
  rw [hg]
  unfold tvOf
  cases hp : m.period with
  | none => simp only [asInstants, List.getElem?_map, ht, Option.map_some]
  | some p =>
    by_cases hw : p = Period.week
    · subst hw; simp only [if_true, isoWeekOf, List.getElem?_map, ht, Option.map_some]
    · simp only [hw, if_false, attrOf, List.getElem?_map, ht, Option.map_some]

/-- the flag one member leaves at one position, from plain booleans: `tin` = the time is inside the member's span, `zd` = the raw
    datum of the depth index there -/
def climFlag (tin zd : Bool) (x : Np.Cell) (fs : Option (Rat × Rat)) (vs : Rat × Rat) (f : Flag) : Flag :=
  let vi := tin && zd
  let failI := match fs with | some s => x.d.ltS s.1 || x.d.gtS s.2 | none => false
  let susI := x.d.ltS vs.1 || x.d.gtS vs.2
  let f1 := if vi && failI then Flag.fail else f
  let f2 := if (vi && !failI) && susI then Flag.suspect else f1
  if (vi && !failI) && !susI then Flag.good else f2

/-- the raw datum of `z_idx` at a position -/
def zDatum (zs : Option (Rat × Rat)) (x z : V) : Bool :=
  match zs with
  | some s => (!(cellOf z).m && (cellOf z).d.geS s.1) && (cellOf z).d.leS s.2
  | none => !(cellOf x).d.isNan

theorem climFlag_eq (m : Member) (acc : Flag) (tv : Rat) (x z : V) (noDepth : Bool) (h : (m.zspan.isSome && noDepth) = false) :
    climFlag (decide (m.tspan.1 ≤ tv) && decide (tv ≤ m.tspan.2)) (zDatum m.zspan x z) (cellOf x) m.fspan m.vspan acc
      = memberApply m acc tv x z noDepth := by
  rcases m with ⟨tsp, vsp, fsp, zsp, per⟩
  simp only [memberApply, h, Bool.false_eq_true, if_false, memberMatches, inside]
  cases zsp with
  | none =>
    cases x with
    | none => simp [climFlag, zDatum, cellOf, Fl.isNan, overrides]
    | some q =>
      cases fsp <;> simp [climFlag, zDatum, cellOf, Fl.isNan, overrides, outside, vlt, vgt, Fl.ltS, Fl.gtS]
  | some zs =>
    cases z with
    | none => simp [climFlag, zDatum, cellOf, overrides]
    | some zv =>
      cases x with
      | none => cases fsp <;> simp [climFlag, zDatum, cellOf, Fl.isNan, overrides, outside, vlt, vgt, Fl.ltS, Fl.gtS, Fl.geS, Fl.leS]
      | some q =>
        cases fsp <;> simp [climFlag, zDatum, cellOf, Fl.isNan, overrides, outside, vlt, vgt, Fl.ltS, Fl.gtS, Fl.geS, Fl.leS]

/-- one member, one position -/
theorem getElem?_climStep (periodOf : Period → Int → Int) (m : Member) (ts : List Int) (xs zs : List V) (fl : List Flag)
    (ht : ts.length = xs.length) (hz : zs.length = xs.length) (i : Nat) (hi : i < xs.length) :
    (climStep periodOf ts (ofInput xs) (ofInput zs) fl m)[i]?
      = (fl[i]?).map fun acc => memberApply m acc (tvOf periodOf m (ts.getD i 0)) (getV xs i) (getV zs i) (zs.all Option.isNone) := by
  unfold climStep
  rw [noneUnmasked_ofInput]
  by_cases hskip : (m.zspan.isSome && zs.all Option.isNone) = true
  · simp only [hskip, if_true, memberApply]
    cases fl[i]? <;> rfl
  · rw [Bool.not_eq_true] at hskip
    have hx := getElem?_getV xs i hi
    have hzz := getElem?_getV zs i (by omega)
    have htc := getElem?_tcopy periodOf m ts i (by omega)
    have hce := climFlag_eq m
    simp only [hskip, Bool.false_eq_true, if_false]
    simp only [getElem?_setWhereB, getElem?_andB, getElem?_notB, getElem?_plainB, getElem?_band, getElem?_geR, getElem?_leR, htc,
      Option.map_some, getElem?_bor, getElem?_ltS, getElem?_gtS, getElem?_ofInput, hx]
    rcases m with ⟨tsp, vsp, fsp, zsp, per⟩
    cases zsp with
    | none =>
      cases fsp with
      | none =>
        simp only [getElem?_zipMask, getElem?_notP, getElem?_isnanData, getElem?_ofInput, hx, maskOf, List.getElem?_map,
          Option.map_some, getElem?_plainB, List.getElem?_replicate, length_ofInput, hi, if_true]
        cases fl[i]? with
        | none => rfl
        | some acc =>
          simp only [Option.map_some]
          rw [← hce acc _ (getV xs i) (getV zs i) (zs.all Option.isNone) hskip]
          simp [climFlag, zDatum]
      | some fs =>
        simp only [getElem?_zipMask, getElem?_notP, getElem?_isnanData, getElem?_ofInput, hx, maskOf, List.getElem?_map,
          Option.map_some, getElem?_bor, getElem?_ltS, getElem?_gtS]
        cases fl[i]? with
        | none => rfl
        | some acc =>
          simp only [Option.map_some]
          rw [← hce acc _ (getV xs i) (getV zs i) (zs.all Option.isNone) hskip]
          simp [climFlag, zDatum]
    | some zsp =>
      cases fsp with
      | none =>
        simp only [getElem?_andB, getElem?_plainB, getElem?_notP, getElem?_geS, getElem?_leS, getElem?_ofInput, hx, hzz, maskOf,
          List.getElem?_map, Option.map_some, List.getElem?_replicate, length_ofInput, hi, if_true]
        cases fl[i]? with
        | none => rfl
        | some acc =>
          simp only [Option.map_some]
          rw [← hce acc _ (getV xs i) (getV zs i) (zs.all Option.isNone) hskip]
          simp [climFlag, zDatum]
      | some fs =>
        simp only [getElem?_andB, getElem?_plainB, getElem?_notP, getElem?_geS, getElem?_leS, getElem?_ofInput, hx, hzz, maskOf,
          List.getElem?_map, Option.map_some, getElem?_bor, getElem?_ltS, getElem?_gtS]
        cases fl[i]? with
        | none => rfl
        | some acc =>
          simp only [Option.map_some]
          rw [← hce acc _ (getV xs i) (getV zs i) (zs.all Option.isNone) hskip]
          simp [climFlag, zDatum]

theorem length_climStep (periodOf : Period → Int → Int) (m : Member) (ts : List Int) (xs zs : List V) (fl : List Flag)
    (ht : ts.length = xs.length) (hz : zs.length = xs.length) (hl : fl.length = xs.length) :
    (climStep periodOf ts (ofInput xs) (ofInput zs) fl m).length = xs.length := by
  unfold climStep
  split
  · exact hl
  · rcases m with ⟨tsp, vsp, fsp, zsp, per⟩
    cases per <;> cases zsp <;> cases fsp <;>
      simp [length_setWhereB, andB, plainB, band, geR, leR, notB, bor, ltS, gtS, geS, leS, zipMask, notP, isnanData, maskOf,
        length_ofInput, asInstants, isoWeekOf, attrOf, hl, ht, hz] <;>
      (try split) <;> simp [isoWeekOf, attrOf, ht]

theorem getElem?_foldl_climStep (periodOf : Period → Int → Int) (ms : List Member) (ts : List Int) (xs zs : List V) (fl : List Flag)
    (ht : ts.length = xs.length) (hz : zs.length = xs.length) (hl : fl.length = xs.length) (i : Nat) (hi : i < xs.length) :
    (ms.foldl (climStep periodOf ts (ofInput xs) (ofInput zs)) fl)[i]?
      = (fl[i]?).map fun acc => ms.foldl (fun acc m =>
          memberApply m acc (tvOf periodOf m (ts.getD i 0)) (getV xs i) (getV zs i) (zs.all Option.isNone)) acc := by
  induction ms generalizing fl with
  | nil => simp
  | cons m ms ih =>
    simp only [List.foldl_cons]
    rw [ih _ (length_climStep periodOf m ts xs zs fl ht hz hl), getElem?_climStep periodOf m ts xs zs fl ht hz i hi]
    cases fl[i]? <;> rfl

theorem climAt_tvOf (periodOf : Period → Int → Int) (ms : List Member) (nd : Bool) (t : Int) (x z : V) :
    climAt periodOf ms nd t x z
      = overrides (ms.foldl (fun acc m => memberApply m acc (tvOf periodOf m t) x z nd) (overrides .unknown [(x.isNone, .missing)]))
          [(x.isNone, .missing)] := by
  unfold climAt
  dsimp only
  congr 2

/-- The translator's `climatology_test` (with `ClimatologyConfig.check` inlined as `climatology_check`) is the pointwise model,
    for time, data and depth columns of one length. -/
theorem C08_src_climatology (periodOf : Period → Int → Int) (ms : List Member) (inp : List V) (ts : List Int) (z : List V)
    (ht : ts.length = inp.length) (hz : z.length = inp.length) :
    climatology_test periodOf ms inp ts z = climatologyTest periodOf ms inp ts z := by
  unfold climatology_test climatologyTest
  simp only [check_eq_foldl, pure_bind, bind_pure]
  simp only [pure, Except.pure]
  congr 1
  apply List.ext_getElem?
  intro i
  have hl0 : (setWhere (fillFlags (emptyFlags (ofInput inp).length) .unknown) (maskOf (ofInput inp)) .missing).length = inp.length := by
    simp [length_setWhere, fillFlags, emptyFlags, maskOf, length_ofInput]
  by_cases hi : i < inp.length
  · have hr : ((List.range inp.length).map fun i =>
        climAt periodOf ms (z.all Option.isNone) (ts.getD i 0) (getV inp i) (getV z i))[i]?
          = some (climAt periodOf ms (z.all Option.isNone) (ts.getD i 0) (getV inp i) (getV z i)) := by
      simp [List.getElem?_range hi]
    have hx := getElem?_getV inp i hi
    rw [hr, getElem?_setWhere, getElem?_foldl_climStep periodOf ms ts inp z _ ht hz hl0 i hi, getElem?_setWhere]
    simp only [fillFlags, emptyFlags, List.getElem?_map, List.getElem?_replicate, length_ofInput, hi, if_true, Option.map_some,
      maskOf, getElem?_ofInput, hx, climAt_tvOf]
    cases hv : getV inp i <;> simp [cellOf, overrides]
  · have hr : ((List.range inp.length).map fun i =>
        climAt periodOf ms (z.all Option.isNone) (ts.getD i 0) (getV inp i) (getV z i))[i]? = none := by simp; omega
    rw [hr, List.getElem?_eq_none_iff, length_setWhere]
    have : ∀ (ms : List Member) (fl : List Flag), fl.length = inp.length →
        (ms.foldl (climStep periodOf ts (ofInput inp) (ofInput z)) fl).length = inp.length := by
      intro ms; induction ms with
      | nil => intro fl h; exact h
      | cons m ms ih => intro fl h; exact ih _ (length_climStep periodOf m ts inp z fl ht hz h)
    rw [this ms _ hl0]; simp [maskOf, length_ofInput]; omega

end IoosQc.NpSrc
