/-
  C16 — stricter thresholds never produce a better flag: the per-test theorems of C16a / C16b
  assembled into one statement over `TestCall`.
-/
import IoosQc.Theorems.C16a
import IoosQc.Theorems.C16b
import IoosQc.Props.C01C02
set_option linter.unusedSimpArgs false
set_option linter.unusedVariables false

namespace IoosQc

theorem validParams_roc_len (periodOf : Period → Int → Int) (inp : List V) (t : List Int) (thr : Rat)
    (h : (TestCall.roc inp t thr).validParams periodOf = true) : inp.length = t.length := by
  simp only [TestCall.validParams, TestCall.spec, rocSpec] at h
  by_cases hl : inp.length = t.length
  · exact hl
  · simp [hl] at h

theorem validParams_density_len (periodOf : Period → Int → Int) (rho z : List V) (s f : Option Rat)
    (h : (TestCall.density rho z s f).validParams periodOf = true) : rho.length = z.length := by
  simp only [TestCall.validParams, TestCall.spec, densSpec] at h
  by_cases hl : rho.length = z.length
  · exact hl
  · simp [hl] at h

theorem validParams_speed_len (periodOf : Period → Int → Int) (lon lat : List V) (t : List Int)
    (s f : Rat) (hp : List V)
    (h : (TestCall.speed lon lat t s f hp).validParams periodOf = true) :
    lon.length = lat.length ∧ lon.length = t.length := by
  simp only [TestCall.validParams, TestCall.spec, speedSpec] at h
  by_cases hl : lon.length = lat.length <;> by_cases hl2 : lon.length = t.length <;> simp_all

theorem validParams_spike_method (periodOf : Period → Int → Int) (m : String) (s f : Option Rat)
    (inp : List V) (h : (TestCall.spike m s f inp).validParams periodOf = true) :
    m = "average" ∨ m = "differential" := by
  simp only [TestCall.validParams, TestCall.spec, spikeSpec] at h
  by_cases h1 : m = "average"
  · exact Or.inl h1
  · by_cases h2 : m = "differential"
    · exact Or.inr h2
    · simp [h1, h2] at h

theorem validParams_atten_ct (periodOf : Period → Int → Int) (ct : String) (inp : List V)
    (t : List Int) (s f : Rat) (p : Option Rat) (mo : Option Nat) (mp : Option Rat)
    (h : (TestCall.attenuated ct inp t s f p mo mp).validParams periodOf = true) :
    ct = "std" ∨ ct = "range" := by
  simp only [TestCall.validParams, TestCall.spec, attenSpec] at h
  by_cases h1 : ct = "std"
  · exact Or.inl h1
  · by_cases h2 : ct = "range"
    · exact Or.inr h2
    · simp [h1, h2] at h

theorem validParams_location_len (periodOf : Period → Int → Int) (lon lat : List V) (b : SeqArg)
    (r : Option Rat) (hp : List V)
    (h : (TestCall.location lon lat b r hp).validParams periodOf = true) : lon.length = lat.length := by
  by_cases hl : lon.length = lat.length
  · exact hl
  · exfalso
    have hne : (lon.length != lat.length) = true := by simp [hl]
    have : (TestCall.location lon lat b r hp).spec periodOf = SpecOut.reject none := by
      simp only [TestCall.spec, locSpec]
      split
      · rfl
      · split
        · simp [hne]
        · rfl
    simp [TestCall.validParams, this] at h

theorem membersSorted_of_inDom (ms : List Member) (inp : List V) (t : List Int) (z : List V)
    (h : (TestCall.climatology ms inp t z).inDom = true) : c16a_membersSorted ms := by
  simp only [TestCall.inDom, Bool.and_eq_true, List.all_eq_true] at h
  intro m hm
  have := h.2 m hm
  simp only [memberSorted, Bool.and_eq_true, decide_eq_true_eq] at this
  refine ⟨this.1.1.2, ?_⟩
  intro f hf
  have h3 := this.1.2
  rw [hf] at h3
  simpa using h3

/-- C16: for every threshold-driven test, every series and every ordered pair (loose, strict) of
    parameter sets in the domain, no flag becomes less severe in GOOD < SUSPECT < FAIL and the
    UNKNOWN / MISSING points are unchanged. -/
theorem C16_main (periodOf : Period → Int → Int) (c c' : TestCall)
    (hs : stricter c c' = true) (hd : c.inDom = true) (hd' : c'.inDom = true)
    (hv : c.validParams periodOf = true) :
    C16.holds (c.run periodOf).toObs (c'.run periodOf).toObs = true := by
  cases c <;> cases c' <;> simp only [stricter, Bool.false_eq_true] at hs
  case gross.gross f s inp f' s' inp' => exact C16_gross f s inp f' s' inp' hs
  case valid.valid lo hi si ei inp lo' hi' si' ei' inp' =>
    exact C16_valid lo hi si ei inp lo' hi' si' ei' inp' hs
  case location.location lon lat b r h lon' lat' b' r' h' =>
    exact C16_location lon lat b r h lon' lat' b' r' h' hs hd hd'
      (validParams_location_len periodOf lon lat b r h hv)
  case climatology.climatology ms inp t z ms' inp' t' z' =>
    exact C16_climatology periodOf ms inp t z ms' inp' t' z' hs (membersSorted_of_inDom ms inp t z hd)
  case spike.spike m s f inp m' s' f' inp' =>
    exact C16_spike m s f inp m' s' f' inp' hs (validParams_spike_method periodOf m s f inp hv)
  case roc.roc inp t thr inp' t' thr' =>
    exact C16_roc inp t thr inp' t' thr' hs (validParams_roc_len periodOf inp t thr hv)
  case flatLine.flatLine inp t s f tol inp' t' s' f' tol' =>
    exact C16_flat inp t s f tol inp' t' s' f' tol' hs hd hd'
  case attenuated.attenuated ct inp t s f p mo mp ct' inp' t' s' f' p' mo' mp' =>
    exact C16_atten ct inp t s f p mo mp ct' inp' t' s' f' p' mo' mp' hs
      (validParams_atten_ct periodOf ct inp t s f p mo mp hv)
  case density.density rho z s f rho' z' s' f' =>
    exact C16_density rho z s f rho' z' s' f' hs (validParams_density_len periodOf rho z s f hv)
  case speed.speed lon lat t s f h lon' lat' t' s' f' h' =>
    exact C16_speed_inDom lon lat t s f h lon' lat' t' s' f' h' hs
      (validParams_speed_len periodOf lon lat t s f h hv) hd

end IoosQc
