/-
  IoosQc.Handlers — request kinds of the line protocol.
-/
import IoosQc.Wire
import IoosQc.Props.C01C02
import IoosQc.Props.C04
import IoosQc.Props.C20
import IoosQc.Model.Streams
import IoosQc.Props.C16
import IoosQc.Props.C17
import IoosQc.Props.C15
import IoosQc.Props.C06
import IoosQc.Props.C19
import IoosQc.Props.C07
import IoosQc.Props.C18
import IoosQc.Model.FxParse
import IoosQc.Model.Creator
import IoosQc.Model.CallRun
import IoosQc.Model.System
import IoosQc.Model.Np
import IoosQc.Model.NpAgg
import IoosQc.Model.NpFx

open Lean IoosQc IoosQc.Wire

namespace IoosQc.Handlers

/-- kind = "test": one call of a QC test function and the observation of the real code. -/
def handleTest (j : Json) : D Json := do
  let c ← field j "call" >>= asCall
  let o ← field j "obs" >>= asObs
  let sp := c.spec periodOf
  let m := (c.run periodOf).toObs
  let wantSpec := (optField j "want_spec").isSome
  let base := Json.mkObj
    [ ("in_dom", toJson c.inDom),
      ("valid_params", toJson (c.validParams periodOf)),
      ("spec_ok", toJson (conforms sp o)),
      ("c01_ok", toJson (C01.holds c o)),
      ("c02_applies", toJson (C02.applies c)),
      ("c02_ok", toJson (C02.holds c o)),
      ("model", obsToJson m),
      ("model_eq", toJson (decide (m = o))),
      ("model_spec_ok", toJson (conforms sp m)) ]
  pure (if wantSpec then base.setObjVal! "spec" (specToJson sp) else base)

/-- kind = "period": calendar field of an instant (checked against pandas day by day). -/
def handlePeriod (j : Json) : D Json := do
  let p ← field j "period" >>= asPeriod
  let ts ← field j "t" >>= asList asInt
  pure (Json.mkObj [("values", Json.arr (ts.map fun t => toJson (periodOf p t)).toArray)])

def asCell (j : Json) : D Cell := do
  if j.isNull then pure .masked else
  let n ← asInt j
  match Flag.ofCode? n with
  | some f => pure (.flag f)
  | none => pure (.junk n)

/-- kind = "agg": vectors of cells (flag codes, other integers, null = masked) and the
    observation of `qartod_compare`. -/
def handleAgg (j : Json) : D Json := do
  let vs ← field j "vectors" >>= asList (asList asCell)
  let o ← field j "obs" >>= asObs
  let m := (qartodCompare vs).toObs
  pure (Json.mkObj
    [ ("in_dom", toJson (decide (0 < vs.length))),
      ("holds", toJson (C04.holds vs o)),
      ("model", obsToJson m),
      ("model_eq", toJson (decide (m = o))),
      ("spec", specToJson (C04.spec vs)) ])

def asStatName (s : String) : D StatName :=
  match s with
  | "min" => pure .min | "max" => pure .max | "mean" => pure .mean | "std" => pure .std
  | _ => throw s!"bad stat {s}"

partial def asExpr (j : Json) : D Expr := do
  match optField j "num" with
  | some n => .num <$> asRat n
  | none =>
  match optField j "stat" with
  | some s => .stat <$> (asStr s >>= asStatName)
  | none =>
  match optField j "neg" with
  | some e => .neg <$> asExpr e
  | none => do
    let o ← field j "op" >>= asStr
    let a ← field j "a" >>= asExpr
    let b ← field j "b" >>= asExpr
    let op ← match o with
      | "+" => pure BinOp.add | "-" => pure BinOp.sub | "*" => pure BinOp.mul | "/" => pure BinOp.div
      | _ => throw s!"bad op {o}"
    pure (.bin op a b)

def asTok (j : Json) : D Tok := do
  let s ← asStr j
  match s with
  | "+" => pure (.op .add) | "-" => pure (.op .sub) | "*" => pure (.op .mul) | "/" => pure (.op .div)
  | "unary -" => pure .uminus
  | "min" => pure (.stat .min) | "max" => pure (.stat .max) | "mean" => pure (.stat .mean)
  | "std" => pure (.stat .std)
  | _ => pure (.ident s)        -- numbers pushed by earlier parses are irrelevant junk here

def asStats (j : Json) : D Stats := do
  pure ⟨← field j "min" >>= asRat, ← field j "max" >>= asRat, ← field j "mean" >>= asRat,
        ← field j "std" >>= asRat⟩

/-- kind = "fx_eval": expression tree, statistics, the junk already on the persistent stack and
    the observation of `eval_fx`. -/
def handleFxEval (j : Json) : D Json := do
  let st ← field j "stats" >>= asStats
  let e ← field j "expr" >>= asExpr
  let pre ← (match optField j "pre" with | some p => asList asTok p | none => pure [])
  let oj ← field j "obs"
  let o : FxObs ← (match optField oj "error" with
    | some er => FxObs.error <$> asErr er
    | none => FxObs.value <$> (field oj "value" >>= asRat))
  let m := evalFxObs st pre e
  let mj := match m with
    | .value v => Json.mkObj [("value", Json.arr #[toJson v.num, toJson v.den])]
    | .error _ => Json.mkObj [("error", Json.str "Exception")]
  pure (Json.mkObj [("holds", toJson (C20.holdsEval st e o)), ("model", mj),
                    ("postfix_len", toJson e.compile.length)])

/-- kind = "fx_valid": a specification string and whether `QcVariableConfig` accepted it. -/
def handleFxValid (j : Json) : D Json := do
  let spec ← field j "spec" >>= asStr
  let acc ← field j "accepted" >>= asBool
  let er ← getOpt asErr j "error"
  pure (Json.mkObj [("holds", toJson (C20.holdsValid spec acc er)), ("model_accepts", toJson (validFx spec))])

def asWindow (j : Json) : D Window :=
  match j with
  | .arr #[a, b] => do pure ⟨← asOpt asInt a, ← asOpt asInt b⟩
  | _ => throw "window: [start|null, end|null] expected"

def boolsToJson (bs : List Bool) : Json := Json.arr (bs.map toJson).toArray

/-- kind = "window": the subset masks the property prescribes (and the modelled mechanism of
    the named front end) for a time axis and a list of windows. -/
def handleWindow (j : Json) : D Json := do
  let tso ← field j "t" >>= asList (asOpt asInt)
  let ws ← field j "windows" >>= asList asWindow
  if tso.any Option.isNone then
    -- a time column with NaT rows: the window rows and the comparison mechanism on such a column
    return Json.mkObj [("spec", Json.arr (ws.map fun w => boolsToJson (specMaskOpt w tso)).toArray),
                       ("mechanism", Json.arr (ws.map fun w => boolsToJson (numpyMaskOpt w tso)).toArray)]
  let ts := tso.filterMap id
  let fe := (optField j "frontend").bind (fun x => x.getStr?.toOption) |>.getD "numpy"
  let mech (w : Window) : List Bool :=
    match fe with
    | "pandas" => pandasMask w ((List.range ts.length).zip ts)
    | "xarray" => xarrayMask w ts
    | _ => numpyMask w ts
  pure (Json.mkObj [("spec", Json.arr (ws.map fun w => boolsToJson (specMask w ts)).toArray),
                    ("mechanism", Json.arr (ws.map fun w => boolsToJson (mech w)).toArray)])

/-- kind = "c16": the same test on the same data under a loose and a strict parameter set. -/
def handleC16 (j : Json) : D Json := do
  let c ← field j "call" >>= asCall
  let c' ← field j "call2" >>= asCall
  let o ← field j "obs" >>= asObs
  let o' ← field j "obs2" >>= asObs
  let m := (c.run periodOf).toObs
  let m' := (c'.run periodOf).toObs
  pure (Json.mkObj
    [ ("in_dom", toJson (c.inDom && c'.inDom && c.validParams periodOf)),
      ("stricter", toJson (stricter c c')),
      ("holds", toJson (C16.holds o o')),
      ("agree1", toJson (conforms (c.spec periodOf) o)),
      ("agree2", toJson (conforms (c'.spec periodOf) o')),
      ("model_holds", toJson (C16.holds m m')),
      ("model", obsToJson m), ("model2", obsToJson m') ])

def asTransform (j : Json) : D Transform := do
  let k ← field j "kind" >>= asStr
  match k with
  | "addValue" => .addValue <$> (field j "k" >>= asRat)
  | "negate" => pure .negate
  | "shiftTime" => .shiftTime <$> (field j "tau" >>= asInt)
  | "shiftBoth" => .shiftBoth <$> (field j "k" >>= asRat)
  | "reverse" => pure .reverse
  | "perturb" => do pure (.perturb (← field j "j" >>= asNat) (← getOpt asRat j "v"))
  | "perturbAux" => do pure (.perturbAux (← field j "j" >>= asNat) (← getOpt asRat j "v"))
  | "perturbPos" => do
    pure (.perturbPos (← field j "j" >>= asNat) (← getOpt asRat j "lon") (← getOpt asRat j "lat")
      (← field j "hops" >>= asList asV))
  | s => throw s!"unknown transform {s}"

/-- kind = "c17": a call, a transformation, the transformed call as the harness built it, and
    the two observations. -/
def handleC17 (j : Json) : D Json := do
  let c ← field j "call" >>= asCall
  let t ← field j "transform" >>= asTransform
  let c2 ← field j "call2" >>= asCall
  let o ← field j "obs" >>= asObs
  let o' ← field j "obs2" >>= asObs
  let applied := applyT t c
  let same := match applied with | some c' => decide (c' = c2) | none => false
  let m := (c.run periodOf).toObs
  let m' := (c2.run periodOf).toObs
  pure (Json.mkObj
    [ ("in_dom", toJson (c.inDom && c2.inDom && c.validParams periodOf)),
      ("applies", toJson applied.isSome),
      ("same_transform", toJson same),
      ("holds", toJson (C17.holds t c o o')),
      ("agree1", toJson (conforms (c.spec periodOf) o)),
      ("agree2", toJson (conforms (c2.spec periodOf) o')),
      ("model_holds", toJson (C17.holds t c m m')),
      ("model", obsToJson m), ("model2", obsToJson m') ])

/-- kind = "c15": one logical call, the observations obtained through several carriers. -/
def handleC15 (j : Json) : D Json := do
  let c ← field j "call" >>= asCall
  let os ← field j "obs_list" >>= asList asObs
  let m := (c.run periodOf).toObs
  pure (Json.mkObj
    [ ("in_dom", toJson (c.inDom && c.validParams periodOf)),
      ("holds", toJson (C15.holds periodOf c os)),
      ("conform", Json.arr (os.map fun o => toJson (conforms (c.spec periodOf) o)).toArray),
      ("model", obsToJson m) ])

def asBools (j : Json) : D (List Bool) := asList asBool j

def asPiece (j : Json) : D Piece := do
  pure ⟨← field j "mask" >>= asBools, ← field j "vals" >>= asList asInt⟩

def asCols {α} (f : Json → D α) (j : Json) : D (List (String × α)) := do
  let o ← j.getObj?
  o.toList.mapM fun (k, v) => do pure (k, ← f v)

def asCtxPiece (j : Json) : D CtxPiece := do
  pure ⟨← field j "key" >>= asStr, ← field j "cols" >>= asCols asPiece⟩

/-- kind = "c06": yielded context results (key + one piece per column) and the collected
    observation in list and dict form. -/
def handleC06 (j : Json) : D Json := do
  let n ← field j "n" >>= asNat
  let cs ← field j "contexts" >>= asList asCtxPiece
  let ol ← field j "obs_list" >>= asList (fun o => do
    pure ((← field o "key" >>= asStr), (← field o "cols" >>= asCols (asList (asOpt asInt)))))
  let od ← field j "obs_dict" >>= asList (fun o => do
    pure ((← field o "key" >>= asStr), (← field o "flags" >>= asList asInt)))
  let keys := distinctKeys cs
  let keysOk := ol.length == keys.length && keys.all (fun k => (ol.filter (·.1 = k)).length == 1)
  let dictKeysOk := od.length == keys.length && keys.all (fun k => (od.filter (·.1 = k)).length == 1)
  let wf := cs.all fun c => c.cols.all fun p => p.2.wf n
  let disj := keys.all fun k => pairwiseDisjoint (piecesFor cs k "results")
  let colsOk := ol.all fun (k, cols) => cols.all fun (name, obs) =>
    C06.columnOk n (piecesFor cs k name) (name == "results") obs
  let dictOk := od.all fun (k, flags) => C06.dictOk n (piecesFor cs k "results") flags
  let model := keys.map fun k => Json.mkObj
    [("key", Json.str k),
     ("results", Json.arr ((collectColumn n (piecesFor cs k "results")).map fun x =>
        match x with | some v => toJson v | none => Json.null).toArray)]
  pure (Json.mkObj
    [ ("in_dom", toJson (wf && disj)), ("keys_ok", toJson (keysOk && dictKeysOk)),
      ("list_ok", toJson colsOk), ("dict_ok", toJson dictOk),
      ("holds", toJson (keysOk && dictKeysOk && colsOk && dictOk)), ("model", Json.arr model.toArray) ])

def asStoreRes (j : Json) : D StoreRes := do
  pure { stream := ← field j "stream" >>= asStr, package := ← field j "package" >>= asStr,
         test := ← field j "test" >>= asStr, fn := ← field j "fn" >>= asStr,
         results := ← field j "results" >>= asNat, data := ← field j "data" >>= asNat,
         tinp := ← getOpt asNat j "tinp", zinp := ← getOpt asNat j "zinp",
         lon := ← getOpt asNat j "lon", lat := ← getOpt asNat j "lat" }

def frameToJson (f : Frame) : Json :=
  Json.arr (f.map fun (n, v) => Json.arr #[Json.str n, toJson v]).toArray

/-- kind = "c19": collected results, save options and the observed frame (column name, content id). -/
def handleC19 (j : Json) : D Json := do
  let c : StoreCase := {
    writeData := ← field j "write_data" >>= asBool, writeAxes := ← field j "write_axes" >>= asBool,
    inc := ← getOpt (asList asStr) j "include", exc := ← getOpt (asList asStr) j "exclude",
    rs := ← field j "results" >>= asList asStoreRes }
  let obs ← field j "obs" >>= asList (fun p => match p with
    | .arr #[n, v] => do pure ((← asStr n), (← asNat v))
    | _ => throw "frame column: [name, id] expected")
  let m := storeSave c.writeData c.writeAxes c.inc c.exc c.rs
  pure (Json.mkObj
    [ ("no_collision", toJson (noCollision c)), ("holds", toJson (C19.holds c obs)),
      ("model_holds", toJson (C19.holds c m)), ("model", frameToJson m) ])

/-- kind = "cfsafe": `cf_safe_name` on a list of names. -/
def handleCfSafe (j : Json) : D Json := do
  let names ← field j "names" >>= asList asStr
  pure (Json.mkObj [("safe", Json.arr (names.map fun n => Json.str (String.ofList (cfSafeName n.toList))).toArray)])

/-- kind = "callrun": the keyword arguments `Call.run` hands to the test function. -/
def handleCallRun (j : Json) : D Json := do
  let kw (k : String) : D KwArgs := do
    let a ← field j k >>= asList (fun e => match e with
      | .arr #[n, v] => do pure ((← n.getStr?), (← v.getNat?))
      | _ => throw "pair expected")
    pure a
  let cfg ← kw "configured"
  let passed ← kw "passed"
  let sig ← field j "sig" >>= asList asStr
  let r := callKwargs cfg passed sig
  pure (Json.mkObj [("kwargs", Json.arr (r.map fun kv => Json.arr #[Json.str kv.1, toJson kv.2]).toArray)])

partial def toJ (j : Json) : J :=
  match j with
  | .null => .null
  | .bool b => .bool b
  | .num n => .num (mkRat n.mantissa (10 ^ n.exponent))
  | .str s => .str s
  | .arr xs => .arr (xs.toList.map toJ)
  | .obj kvs => .obj (kvs.toList.map fun (k, v) => (k, toJ v))

def asJ (j : Json) : D J := pure (toJ j)

/-- Keep the harness' key order: objects arrive as arrays of [key, value] pairs where order matters. -/
partial def pairsToJ (j : Json) : D J :=
  match j with
  | .obj kvs =>
    (match kvs.toList with
     | [("$o", .arr ps)] => do
        let kv ← ps.toList.mapM fun p => match p with
          | .arr #[k, v] => do pure ((← asStr k), (← pairsToJ v))
          | _ => throw "ordered object: [key, value] expected"
        pure (.obj kv)
     | l => do pure (.obj (← l.mapM fun (k, v) => do pure (k, ← pairsToJ v))))
  | .arr xs => do pure (.arr (← xs.toList.mapM pairsToJ))
  | x => pure (toJ x)

def asNTest (j : Json) : D NTest := do pure ⟨← field j "name" >>= asStr, ← field j "kwargs" >>= pairsToJ⟩
def asNModule (j : Json) : D NModule := do pure ⟨← field j "name" >>= asStr, ← field j "tests" >>= asList asNTest⟩
def asNStream (j : Json) : D NStream := do pure ⟨← field j "id" >>= asStr, ← field j "modules" >>= asList asNModule⟩
def asNCtx (j : Json) : D NCtx := do
  pure ⟨← field j "window" >>= pairsToJ, ← field j "region" >>= pairsToJ, ← field j "region_seen" >>= pairsToJ,
        ← field j "streams" >>= asList asNStream⟩

def asCallSpec (j : Json) : D CallSpec := do
  pure ⟨← field j "stream" >>= asStr, ← field j "module" >>= asStr, ← field j "test" >>= asStr,
        ← field j "kwargs" >>= pairsToJ, ← field j "window" >>= pairsToJ, ← field j "region" >>= pairsToJ⟩

def asLayout (s : String) : D Layout :=
  match s with
  | "contexts" => pure .contexts | "context" => pure .context | "streams" => pure .streams
  | "modules" => pure .modules | _ => throw s!"bad layout {s}"

/-- kind = "c07": a typed configuration, the layout it was written in, and the calls `Config`
    exposed for it. -/
def handleC07 (j : Json) : D Json := do
  let l ← field j "layout" >>= asStr >>= asLayout
  let dk ← field j "default_key" >>= asStr
  let cs ← field j "contexts" >>= asList asNCtx
  let obs ← field j "obs" >>= asList asCallSpec
  let tree := layoutJ l cs
  let model := match tree with
    | some t => configCalls realModule realTest dk t
    | none => []
  -- the model sees the raw region; map it to its observed form for comparison
  let seen (c : CallSpec) : CallSpec :=
    match c.region with
    | .null => c
    | _ => match cs.find? (fun x => x.region.beq c.region) with
           | some x => { c with region := x.regionSeen }
           | none => c
  pure (Json.mkObj
    [ ("in_dom", toJson (C07.inDom l cs)),
      ("expressible", toJson tree.isSome),
      ("holds", toJson (C07.holds realTest l dk cs obs)),
      ("model_eq", toJson (sameCalls (model.map seen) obs)),
      ("depth", toJson ((tree.map J.depth).getD 0)),
      ("has_params", toJson (cs.all fun c => hasParams c.streams)),
      ("n_spec", toJson (specCalls realTest (rebindDefault l dk cs)).length),
      ("n_model", toJson model.length) ])

def asFault (s : String) : D (Option FaultKind) :=
  match s with
  | "none" => pure none
  | "unknown_module" => pure (some .unknownModule) | "unknown_test" => pure (some .unknownTest)
  | "bad_params" => pure (some .badParams) | "dup_bad_params" => pure (some .badParams) | "missing_input" => pure (some .missingInput)
  | "absent_stream" => pure (some .absentStream) | "raises" => pure (some .raises)
  | _ => throw s!"bad fault {s}"

/-- kind = "c18": configured entries (healthy ones with the id of the result they yield alone)
    and the collected (key, result id) pairs of the run that contains the failing entries. -/
def handleC18 (j : Json) : D Json := do
  let es ← field j "entries" >>= asList (fun e => do
    pure (⟨← field e "key" >>= asStr, ← field e "fault" >>= asStr >>= asFault, ← field e "result" >>= asNat⟩ : Entry))
  let obs ← field j "obs" >>= asList (fun p => match p with
    | .arr #[k, v] => do pure ((← asStr k), (← asNat v))
    | _ => throw "[key, id] expected")
  pure (Json.mkObj [("holds", toJson (C18.holds es obs)),
                    ("model", Json.arr ((runEntries es).map fun (k, v) => Json.arr #[Json.str k, toJson v]).toArray)])

/-- kind = "fx_parse": the expression STRING is parsed by the Lean model of the grammar
    (`parseString`) and evaluated; the observation of `eval_fx` on the same string must be the
    ordinary arithmetic value of that tree, or an error where the string is outside the grammar
    / divides by zero. -/
def handleFxParse (j : Json) : D Json := do
  let st ← field j "stats" >>= asStats
  let fx ← field j "fx" >>= asStr
  let oj ← field j "obs"
  let o : FxObs ← (match optField oj "error" with
    | some er => FxObs.error <$> asErr er
    | none => FxObs.value <$> (field oj "value" >>= asRat))
  let tree := parseString fx
  let holds := match tree with
    | some e => C20.holdsEval st e o
    | none => (match o with | .error _ => true | .value _ => false)
  pure (Json.mkObj [("parsed", toJson tree.isSome), ("holds", toJson holds),
                    ("model", match tree.bind (Expr.eval st) with
                      | some v => Json.mkObj [("value", Json.arr #[toJson v.num, toJson v.den])]
                      | none => Json.mkObj [("error", Json.str "Exception")])])

def ratJson (q : Rat) : Json := Json.arr #[toJson q.num, toJson q.den]

/-- kind = "fx_src": a raw stack of `exprStack` entries (strings, `(name, nargs)` tuples), the table of what Python's
    `float` returns for each string on it, the statistics: the transcription `NpSrc.eval_fx` is run on it. -/
def handleFxSrc (j : Json) : D Json := do
  let st ← field j "stats" >>= asStats
  let stack ← field j "stack" >>= asList (fun e => match optField e "s" with
    | some s => NpFx.SE.str <$> asStr s
    | none => do
      let n ← field e "name" >>= asStr
      let k ← field e "nargs" >>= asNat
      pure (NpFx.SE.call n k))
  let floats ← field j "floats" >>= asList (fun e => do
    let k ← field e "s" >>= asStr
    let v ← getOpt asRat e "v"
    pure (k, v))
  let pf : String → Option Rat := fun s => (floats.find? (·.1 == s)).bind (·.2)
  pure (match NpSrc.eval_fx pf st.get stack with
    | .ok v => Json.mkObj [("out", Json.str "ok"), ("value", ratJson v)]
    | .error .raised => Json.mkObj [("out", Json.str "raised")]
    | .error .unmodelled => Json.mkObj [("out", Json.str "unmodelled")])

/-- kind = "creator": a time-constant climatology grid, a bounding box and a number of days:
    the statistics `create_config` must feed to the limit expressions (exact rationals; the
    variance instead of the standard deviation), and the span of two expression strings parsed by
    the grammar model, given the square root the harness observed. -/
def handleCreator (j : Json) : D Json := do
  let cells ← field j "cells" >>= asList (fun c => do
    pure (⟨← field c "lat" >>= asRat, ← field c "lon" >>= asRat, ← getOpt asRat c "value"⟩ : GridCell))
  let bb ← field j "bbox" >>= asList asRat
  let d ← field j "days" >>= asNat
  let b : BBox ← (match bb with
    | [x0, y0, x1, y1] => pure ⟨x0, y0, x1, y1⟩
    | _ => throw "bbox: 4 numbers")
  let vals := insideCells b cells
  let std ← getOpt asRat j "std"
  let spans ← (match optField j "exprs" with
    | some ex => asList (fun p => match p with
        | .arr #[lo, hi] => do
            let lo ← asStr lo
            let hi ← asStr hi
            pure (match parseString lo, parseString hi, gridStats (pooled d vals), std with
              | some el, some eh, some g, some s =>
                (match spanOf (g.toStats s) el eh with
                 | some (a, c) => Json.arr #[ratJson a, ratJson c]
                 | none => Json.null)
              | _, _, _, _ => Json.null)
        | _ => throw "exprs: [lo, hi] strings") ex
    | none => pure [])
  pure (Json.mkObj
    [ ("n_inside", toJson vals.length),
      ("stats", match gridStats (pooled d vals) with
        | some g => Json.mkObj [("min", ratJson g.min), ("max", ratJson g.max), ("mean", ratJson g.mean), ("var", ratJson g.var)]
        | none => Json.null),
      ("stats_one_day", match gridStats vals with
        | some g => Json.mkObj [("min", ratJson g.min), ("max", ratJson g.max), ("mean", ratJson g.mean), ("var", ratJson g.var)]
        | none => Json.null),
      ("spans", Json.arr spans.toArray) ])


/-! ### the whole pipeline -/

/-- The parameters of a call (the arrays are dropped). -/
def specOfCall : TestCall → TestSpec
  | .gross f s _ => .gross f s
  | .valid lo hi si ei _ => .valid lo hi si ei
  | .location _ _ b r h => .location b r h
  | .climatology ms _ _ _ => .climatology ms
  | .spike m s f _ => .spike m s f
  | .roc _ _ thr => .roc thr
  | .flatLine _ _ s f tol => .flatLine s f tol
  | .attenuated ct _ _ s f p mo mp => .attenuated ct s f p mo mp
  | .density _ _ s f => .density s f
  | .pressure _ => .pressure
  | .speed _ _ _ s f h => .speed s f h

/-- A configured test on the wire: the same fields as a call (same decoder, same defaults for
    omitted keywords) without the arrays; `{"fn": "raiser"}` is a callee that raises. -/
def asTestSpec (j : Json) : D TestSpec := do
  let fn ← field j "fn" >>= asStr
  if fn = "raiser" then return .raiser
  let empty := Json.arr #[]
  let j := ["inp", "t", "z", "lon", "lat"].foldl (fun (acc : Json) k => acc.setObjVal! k empty) j
  let j := if (optField j "hops").isSome then j else j.setObjVal! "hops" empty
  specOfCall <$> asCall j

def asTable (j : Json) : D Table := do
  let t ← field j "t" >>= asList asInt
  let cols ← field j "cols" >>= asList (fun c => do pure (← field c "name" >>= asStr, ← field c "vals" >>= asList asV))
  pure { t := t, z := ← getOpt (asList asV) j "z", lat := ← getOpt (asList asV) j "lat",
         lon := ← getOpt (asList asV) j "lon", cols := cols }

def asSysCtx (j : Json) : D SysCtx := do
  let w ← field j "window" >>= asWindow
  let es ← field j "entries" >>= asList (fun e => do
    pure (⟨← field e "stream" >>= asStr, ← field e "key" >>= asStr, ← field e "spec" >>= asTestSpec⟩ : SysEntry))
  pure ⟨w, es⟩

/-- Every call the run makes lies in the domain the theorems (and the float argument) cover. -/
def sysInDom (tab : Table) (cs : List SysCtx) : Bool :=
  (groupCtxs cs).all fun c =>
    let mask := specMask c.window tab.t
    c.entries.all fun e =>
      match tab.cols.lookup e.stream with
      | none => true
      | some col =>
        (match e.spec.bind (tab.rows col mask) with
         | none => true
         | some call => call.inDom)

def optIntsToJson (l : List (Option Int)) : Json :=
  Json.arr (l.map fun v => match v with | some x => toJson x | none => Json.null).toArray

/-- kind = "system": a table, a typed configuration and the collected results of the real run
    (Config → stream front end → collect_results, list and dict form).  The model computes the
    complete expected outcome (`systemRun`). -/
def handleSystem (j : Json) : D Json := do
  let tab ← field j "table" >>= asTable
  let cs ← field j "contexts" >>= asList asSysCtx
  let obs ← field j "obs" >>= asList (fun o => do
    pure ((← field o "stream" >>= asStr, ← field o "key" >>= asStr),
          (← field o "list" >>= asList (asOpt asInt), ← field o "dict" >>= asList asInt)))
  let n := tab.t.length
  let ys := runStream periodOf specMask tab cs
  let keys := sysKeys ys
  let model := keys.map fun k =>
    (k, (collectColumn n (sysPieces ys k.1 k.2), collectDict n (sysPieces ys k.1 k.2)))
  let sameKeys := obs.length == model.length && model.all (fun m => (obs.lookup m.1).isSome)
  let bad := model.filter fun m => obs.lookup m.1 != some m.2
  pure (Json.mkObj
    [ ("in_dom", toJson (sysInDom tab cs)),
      ("agree", toJson (sameKeys && bad.isEmpty)),
      ("n_yields", toJson ys.length),
      ("n_partial", toJson (ys.filter fun y => y.mask.any (!·)).length),
      ("n_norun", toJson (ys.filter fun y => y.flags.isNone).length),
      ("model", Json.arr (model.map fun m => Json.mkObj
          [("stream", Json.str m.1.1), ("key", Json.str m.1.2), ("list", optIntsToJson m.2.1),
           ("dict", Json.arr (m.2.2.map toJson).toArray)]).toArray),
      ("differs", Json.arr (bad.map fun m => Json.str (m.1.1 ++ ":" ++ m.1.2)).toArray) ])


/-! ### numpy primitives (Model/Np) -/

open IoosQc.Np in
def asFl (j : Json) : D Np.Fl := if j.isNull then pure .nan else Np.Fl.num <$> asRat j

def asCellNp (j : Json) : D Np.Cell :=
  match j with
  | .arr #[d, m] => do pure ⟨← asFl d, ← asBool m⟩
  | _ => throw "cell: [data|null, mask]"

def asBCellNp (j : Json) : D Np.BCell :=
  match j with
  | .arr #[d, m] => do pure ⟨← asBool d, ← asBool m⟩
  | _ => throw "bcell: [bool, mask]"

def flToJson : Np.Fl → Json
  | .nan => Json.null
  | .num q => Json.arr #[toJson q.num, toJson q.den]

def cellsToJson (a : Np.MArr) : Json := Json.arr (a.map fun c => Json.arr #[flToJson c.d, toJson c.m]).toArray
def bcellsToJson (a : Np.BArr) : Json := Json.arr (a.map fun c => Json.arr #[toJson c.d, toJson c.m]).toArray
def flagsToJson (a : List Flag) : Json := Json.arr (a.map fun f => toJson f.code).toArray

def asFlagList (j : Json) : D (List Flag) := do
  let cs ← asList asInt j
  cs.mapM fun c => match Flag.ofCode? c with | some f => pure f | none => throw "flag code"

/-- kind = "np": one primitive of `Model/Np` on explicit cells; the harness compares data AND mask
    with what the installed numpy computes for the same operation. -/
def handleNp (j : Json) : D Json := do
  let op ← field j "op" >>= asStr
  let a : D Np.MArr := field j "a" >>= asList asCellNp
  let b : D Np.MArr := field j "b" >>= asList asCellNp
  let r : D Rat := field j "r" >>= asRat
  let out ← (match op with
    | "add" => do pure (cellsToJson (Np.maBin Np.Fl.add (← a) (← b)))
    | "sub" => do pure (cellsToJson (Np.maBin Np.Fl.sub (← a) (← b)))
    | "mul" => do pure (cellsToJson (Np.maBin Np.Fl.mul (← a) (← b)))
    | "divS" => do pure (cellsToJson (Np.maDivS (← a) (← r)))
    | "divArr" => do pure (cellsToJson (Np.maDivArr (← a) (← field j "d" >>= asList asRat)))
    | "abs" => do pure (cellsToJson (Np.uf1 Np.Fl.abs (← a)))
    | "minimum" => do pure (cellsToJson (Np.uf2 Np.Fl.min (← a) (← b)))
    | "diff" => do pure (cellsToJson (Np.maDiff (← a)))
    | "masked_invalid" => do pure (cellsToJson (Np.maskedInvalid (← a)))
    | "set_inner_zeros" => do pure (cellsToJson (Np.setInner (Np.zeros ((← a).length + 2)) (← a)))
    | "set_tail_zeros" => do pure (cellsToJson (Np.setTail (Np.zeros ((← a).length + 1)) (← a)))
    | "gt" => do pure (bcellsToJson (Np.gtS (← a) (← r)))
    | "lt" => do pure (bcellsToJson (Np.ltS (← a) (← r)))
    | "ge" => do pure (bcellsToJson (Np.geS (← a) (← r)))
    | "or" => do pure (bcellsToJson (Np.bor (← field j "c1" >>= asList asBCellNp) (← field j "c2" >>= asList asBCellNp)))
    | "set_where_b" => do
        pure (flagsToJson (Np.setWhereB (← field j "flags" >>= asFlagList) (← field j "c1" >>= asList asBCellNp) .fail))
    | "set_where" => do
        pure (flagsToJson (Np.setWhere (← field j "flags" >>= asFlagList) (Np.maskOf (← a)) .missing))
    | "set_zero_where_b" => do pure (cellsToJson (Np.setZeroWhereB (← a) (← field j "c1" >>= asList asBCellNp)))
    | "set_first_last" => do
        pure (flagsToJson (Np.setLast (Np.setFirst (← field j "flags" >>= asFlagList) .unknown) .unknown))
    | "of_input" => do pure (cellsToJson (Np.ofInput (← field j "v" >>= asList asV)))
    | "sign" => do pure (cellsToJson (Np.uf1 Np.Fl.sign (← a)))
    | "le" => do pure (bcellsToJson (Np.leS (← a) (← r)))
    | "eq_true" => do pure (bcellsToJson (Np.eqTrue (← field j "c1" >>= asList asBCellNp)))
    | "any" => do pure (toJson (Np.anyB (← field j "c1" >>= asList asBCellNp)))
    | "view_init_set" => do
        let fl ← field j "flags1" >>= asFlagList
        pure (flagsToJson (Np.setInit1 fl (Np.setWhereB (Np.init1 fl) (← field j "c1" >>= asList asBCellNp) .fail)))
    | "view_tail_set" => do
        let fl ← field j "flags1" >>= asFlagList
        pure (flagsToJson (Np.setTail fl (Np.setWhereB (Np.tail1 fl) (← field j "c1" >>= asList asBCellNp) .fail)))
    | "view_tail_set_bools" => do
        let fl ← field j "flags1" >>= asFlagList
        pure (flagsToJson (Np.setTail fl (Np.setWhere (Np.tail1 fl) (Np.maskOf (← a)) .missing)))
    | "set_at0" => do
        pure (match Np.setAt0 (← field j "flags" >>= asFlagList) .unknown with
          | .ok fl => flagsToJson fl
          | .error e => Json.str e.name)
    | "mask_or" => do pure (Json.arr ((Np.bor2 (Np.maskOf (← a)) (Np.maskOf (← b))).map toJson).toArray)
    | "mask_and_xor" => do
        pure (Json.arr #[Json.arr ((Np.band (Np.maskOf (← a)) (Np.maskOf (← b))).map toJson).toArray,
                         Json.arr ((Np.bxor (Np.maskOf (← a)) (Np.maskOf (← b))).map toJson).toArray])
    | "filled" => do pure (Json.arr ((Np.ofInputFilled (← field j "v" >>= asList asV)).map flToJson).toArray)
    | "of_input_junk" => do
        pure (cellsToJson (Np.ofInputJunk (← field j "v" >>= asList asV) (← field j "junk" >>= asList asFl)))
    | "pdiff" => do pure (Json.arr ((Np.npDiff ((← a).map (·.d))).map flToJson).toArray)
    | "mean_sign" => do pure (flToJson (Np.Fl.sign (Np.npMean ((← a).map (·.d)))))
    | "mul_s" => do pure (Json.arr ((Np.npMulS (← field j "s" >>= asFl) ((← a).map (·.d))).map flToJson).toArray)
    | "where_le_plus1" => do
        pure (Json.arr (((Np.npWhere (Np.npLeS ((← a).map (·.d)) (← r))).map (· + 1)).map toJson).toArray)
    | "set_idx" => do
        pure (flagsToJson (Np.setIdx (← field j "flags" >>= asFlagList) (← field j "idx" >>= asList asNat) .suspect))
    | "rolling" => do
        let w ← field j "w" >>= asNat
        let win := Np.rollingWindow (← a) w
        let mn := Np.rowMin win
        let mx := Np.rowMax win
        let tr := Np.insertFalse (min (← a).length w) (Np.filledFalse (Np.ltS (Np.uf1 Np.Fl.abs (Np.maBin Np.Fl.sub mx mn)) (← r)))
        let hide := fun (c : Np.Cell) => if c.m then (⟨.nan, true⟩ : Np.Cell) else c
        pure (Json.arr #[cellsToJson (mn.map hide), cellsToJson (mx.map hide), Json.arr (tr.map toJson).toArray])
    | "where_eq" => do
        let v ← field j "vec" >>= asList asCell
        let p ← field j "p" >>= asInt
        match Flag.ofCode? p with
        | some f => pure (Json.arr ((Np.whereEq v f).map toJson).toArray)
        | none => throw "flag code"
    | "empty_fill" => do
        pure (match Np.maEmpty ((← field j "shapes" >>= asList asNat)[0]?) with
          | .ok fl => flagsToJson (Np.fillWith fl .missing)
          | .error e => Json.str e.name)
    | "and_mb" => do pure (bcellsToJson (Np.andB (← field j "c1" >>= asList asBCellNp) (← field j "c2" >>= asList asBCellNp)))
    | "and_pb" => do
        pure (bcellsToJson (Np.andB (Np.plainB ((← field j "c1" >>= asList asBCellNp).map (·.d))) (← field j "c2" >>= asList asBCellNp)))
    | "not_b" => do pure (bcellsToJson (Np.notB (← field j "c1" >>= asList asBCellNp)))
    | "none_unmasked" => do pure (toJson (Np.noneUnmasked (← a)))
    | "z_idx_nodepth" => do pure (bcellsToJson (Np.zipMask (Np.notP (Np.isnanData (← a))) (Np.maskOf (← a))))
    | "great_circle" => do
        pure (cellsToJson (Np.greatCircle (← field j "hops" >>= asList asV) (← field j "n" >>= asNat)))
    | s => throw s!"unknown np op {s}")
  pure (Json.mkObj [("out", out)])

/-- kind = "np_mid": an INTERMEDIATE array of an array-level transcription (raw data AND mask), for comparison with the local
    variable of the same name in the running Python function. -/
def handleNpMid (j : Json) : D Json := do
  let what ← field j "what" >>= asStr
  let inp : D (List V) := field j "inp" >>= asList asV
  let out ← (match what with
    | "spike.diff.average" => do pure (cellsToJson (Np.spikeDiffAverage (Np.ofInput (← inp))))
    | "spike.diff.differential" => do pure (cellsToJson (Np.spikeDiffDifferential (Np.ofInput (← inp))))
    | "roc.roc" => do
        let a := Np.ofInput (← inp)
        let ts ← field j "t" >>= asList asInt
        pure (cellsToJson (Np.setTail (Np.zeros a.length) (Np.uf1 Np.Fl.abs (Np.maDivArr (Np.maDiff a) (Np.dtSeconds ts)))))
    | "density.delta" => do
        let z ← field j "z" >>= asList asV
        pure (cellsToJson (Np.maBin Np.Fl.mul (Np.uf1 Np.Fl.sign (Np.maDiff (Np.ofInput z))) (Np.maDiff (Np.ofInput (← inp)))))
    | "speed.speed" => do
        let hops ← field j "hops" >>= asList asV
        let ts ← field j "t" >>= asList asInt
        let n ← field j "n" >>= asNat
        pure (cellsToJson (Np.setTail (Np.zeros ts.length)
          (Np.uf1 Np.Fl.abs (Np.maDivArr (Np.tail1 (Np.greatCircle hops n)) (Np.dtSeconds ts)))))
    | s => throw s!"unknown intermediate {s}")
  pure (Json.mkObj [("out", out)])

def dispatch (kind : String) (j : Json) : D Json :=
  match kind with
  | "test" => handleTest j
  | "period" => handlePeriod j
  | "agg" => handleAgg j
  | "fx_eval" => handleFxEval j
  | "fx_valid" => handleFxValid j
  | "fx_parse" => handleFxParse j
  | "fx_src" => handleFxSrc j
  | "creator" => handleCreator j
  | "window" => handleWindow j
  | "c16" => handleC16 j
  | "c17" => handleC17 j
  | "c15" => handleC15 j
  | "c06" => handleC06 j
  | "c19" => handleC19 j
  | "cfsafe" => handleCfSafe j
  | "callrun" => handleCallRun j
  | "c07" => handleC07 j
  | "c18" => handleC18 j
  | "system" => handleSystem j
  | "np" => handleNp j
  | "np_mid" => handleNpMid j
  | k => throw s!"unknown kind {k}"

end IoosQc.Handlers
