/-
  IoosQc.Handlers — request kinds of the line protocol.
-/
import IoosQc.Wire
import IoosQc.Props.C01C02
import IoosQc.Props.C04

open Lean IoosQc IoosQc.Wire

namespace IoosQc.Handlers

/-- kind = "test": one call of a QC test function and the observation of the real code. -/
def handleTest (j : Json) : D Json := do
  let c ← field j "call" >>= asCall
  let o ← field j "obs" >>= asObs
  let sp := c.spec periodOf
  let m := (c.run periodOf).toObs
  let wantSpec := (optField j "want_spec").isSome
  let base := Json.mkObj
    [ ("in_dom", toJson c.inDom),
      ("valid_params", toJson (c.validParams periodOf)),
      ("spec_ok", toJson (conforms sp o)),
      ("c01_ok", toJson (C01.holds c o)),
      ("c02_applies", toJson (C02.applies c)),
      ("c02_ok", toJson (C02.holds c o)),
      ("model", obsToJson m),
      ("model_eq", toJson (decide (m = o))),
      ("model_spec_ok", toJson (conforms sp m)) ]
  pure (if wantSpec then base.setObjVal! "spec" (specToJson sp) else base)

/-- kind = "period": calendar field of an instant (checked against pandas day by day). -/
def handlePeriod (j : Json) : D Json := do
  let p ← field j "period" >>= asPeriod
  let ts ← field j "t" >>= asList asInt
  pure (Json.mkObj [("values", Json.arr (ts.map fun t => toJson (periodOf p t)).toArray)])

def asCell (j : Json) : D Cell := do
  if j.isNull then pure .masked else
  let n ← asInt j
  match Flag.ofCode? n with
  | some f => pure (.flag f)
  | none => pure (.junk n)

/-- kind = "agg": vectors of cells (flag codes, other integers, null = masked) and the
    observation of `qartod_compare`. -/
def handleAgg (j : Json) : D Json := do
  let vs ← field j "vectors" >>= asList (asList asCell)
  let o ← field j "obs" >>= asObs
  let m := (qartodCompare vs).toObs
  pure (Json.mkObj
    [ ("in_dom", toJson (decide (0 < vs.length))),
      ("holds", toJson (C04.holds vs o)),
      ("model", obsToJson m),
      ("model_eq", toJson (decide (m = o))),
      ("spec", specToJson (C04.spec vs)) ])

def dispatch (kind : String) (j : Json) : D Json :=
  match kind with
  | "test" => handleTest j
  | "period" => handlePeriod j
  | "agg" => handleAgg j
  | k => throw s!"unknown kind {k}"

end IoosQc.Handlers
