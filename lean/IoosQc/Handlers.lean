/-
  IoosQc.Handlers — request kinds of the line protocol.
-/
import IoosQc.Wire
import IoosQc.Props.C01C02
import IoosQc.Props.C04
import IoosQc.Props.C20
import IoosQc.Model.Streams
import IoosQc.Props.C16
import IoosQc.Props.C17
import IoosQc.Props.C15

open Lean IoosQc IoosQc.Wire

namespace IoosQc.Handlers

/-- kind = "test": one call of a QC test function and the observation of the real code. -/
def handleTest (j : Json) : D Json := do
  let c ← field j "call" >>= asCall
  let o ← field j "obs" >>= asObs
  let sp := c.spec periodOf
  let m := (c.run periodOf).toObs
  let wantSpec := (optField j "want_spec").isSome
  let base := Json.mkObj
    [ ("in_dom", toJson c.inDom),
      ("valid_params", toJson (c.validParams periodOf)),
      ("spec_ok", toJson (conforms sp o)),
      ("c01_ok", toJson (C01.holds c o)),
      ("c02_applies", toJson (C02.applies c)),
      ("c02_ok", toJson (C02.holds c o)),
      ("model", obsToJson m),
      ("model_eq", toJson (decide (m = o))),
      ("model_spec_ok", toJson (conforms sp m)) ]
  pure (if wantSpec then base.setObjVal! "spec" (specToJson sp) else base)

/-- kind = "period": calendar field of an instant (checked against pandas day by day). -/
def handlePeriod (j : Json) : D Json := do
  let p ← field j "period" >>= asPeriod
  let ts ← field j "t" >>= asList asInt
  pure (Json.mkObj [("values", Json.arr (ts.map fun t => toJson (periodOf p t)).toArray)])

def asCell (j : Json) : D Cell := do
  if j.isNull then pure .masked else
  let n ← asInt j
  match Flag.ofCode? n with
  | some f => pure (.flag f)
  | none => pure (.junk n)

/-- kind = "agg": vectors of cells (flag codes, other integers, null = masked) and the
    observation of `qartod_compare`. -/
def handleAgg (j : Json) : D Json := do
  let vs ← field j "vectors" >>= asList (asList asCell)
  let o ← field j "obs" >>= asObs
  let m := (qartodCompare vs).toObs
  pure (Json.mkObj
    [ ("in_dom", toJson (decide (0 < vs.length))),
      ("holds", toJson (C04.holds vs o)),
      ("model", obsToJson m),
      ("model_eq", toJson (decide (m = o))),
      ("spec", specToJson (C04.spec vs)) ])

def asStatName (s : String) : D StatName :=
  match s with
  | "min" => pure .min | "max" => pure .max | "mean" => pure .mean | "std" => pure .std
  | _ => throw s!"bad stat {s}"

partial def asExpr (j : Json) : D Expr := do
  match optField j "num" with
  | some n => .num <$> asRat n
  | none =>
  match optField j "stat" with
  | some s => .stat <$> (asStr s >>= asStatName)
  | none =>
  match optField j "neg" with
  | some e => .neg <$> asExpr e
  | none => do
    let o ← field j "op" >>= asStr
    let a ← field j "a" >>= asExpr
    let b ← field j "b" >>= asExpr
    let op ← match o with
      | "+" => pure BinOp.add | "-" => pure BinOp.sub | "*" => pure BinOp.mul | "/" => pure BinOp.div
      | _ => throw s!"bad op {o}"
    pure (.bin op a b)

def asTok (j : Json) : D Tok := do
  let s ← asStr j
  match s with
  | "+" => pure (.op .add) | "-" => pure (.op .sub) | "*" => pure (.op .mul) | "/" => pure (.op .div)
  | "unary -" => pure .uminus
  | "min" => pure (.stat .min) | "max" => pure (.stat .max) | "mean" => pure (.stat .mean)
  | "std" => pure (.stat .std)
  | _ => pure (.ident s)        -- numbers pushed by earlier parses are irrelevant junk here

def asStats (j : Json) : D Stats := do
  pure ⟨← field j "min" >>= asRat, ← field j "max" >>= asRat, ← field j "mean" >>= asRat,
        ← field j "std" >>= asRat⟩

/-- kind = "fx_eval": expression tree, statistics, the junk already on the persistent stack and
    the observation of `eval_fx`. -/
def handleFxEval (j : Json) : D Json := do
  let st ← field j "stats" >>= asStats
  let e ← field j "expr" >>= asExpr
  let pre ← (match optField j "pre" with | some p => asList asTok p | none => pure [])
  let oj ← field j "obs"
  let o : FxObs ← (match optField oj "error" with
    | some er => FxObs.error <$> asErr er
    | none => FxObs.value <$> (field oj "value" >>= asRat))
  let m := evalFxObs st pre e
  let mj := match m with
    | .value v => Json.mkObj [("value", Json.arr #[toJson v.num, toJson v.den])]
    | .error _ => Json.mkObj [("error", Json.str "Exception")]
  pure (Json.mkObj [("holds", toJson (C20.holdsEval st e o)), ("model", mj),
                    ("postfix_len", toJson e.compile.length)])

/-- kind = "fx_valid": a specification string and whether `QcVariableConfig` accepted it. -/
def handleFxValid (j : Json) : D Json := do
  let spec ← field j "spec" >>= asStr
  let acc ← field j "accepted" >>= asBool
  let er ← getOpt asErr j "error"
  pure (Json.mkObj [("holds", toJson (C20.holdsValid spec acc er)), ("model_accepts", toJson (validFx spec))])

def asWindow (j : Json) : D Window :=
  match j with
  | .arr #[a, b] => do pure ⟨← asOpt asInt a, ← asOpt asInt b⟩
  | _ => throw "window: [start|null, end|null] expected"

def boolsToJson (bs : List Bool) : Json := Json.arr (bs.map toJson).toArray

/-- kind = "window": the subset masks the property prescribes (and the modelled mechanism of
    the named front end) for a time axis and a list of windows. -/
def handleWindow (j : Json) : D Json := do
  let ts ← field j "t" >>= asList asInt
  let ws ← field j "windows" >>= asList asWindow
  let fe := (optField j "frontend").bind (fun x => x.getStr?.toOption) |>.getD "numpy"
  let mech (w : Window) : List Bool :=
    match fe with
    | "pandas" => pandasMask w ((List.range ts.length).zip ts)
    | "xarray" => xarrayMask w ts
    | _ => numpyMask w ts
  pure (Json.mkObj [("spec", Json.arr (ws.map fun w => boolsToJson (specMask w ts)).toArray),
                    ("mechanism", Json.arr (ws.map fun w => boolsToJson (mech w)).toArray)])

/-- kind = "c16": the same test on the same data under a loose and a strict parameter set. -/
def handleC16 (j : Json) : D Json := do
  let c ← field j "call" >>= asCall
  let c' ← field j "call2" >>= asCall
  let o ← field j "obs" >>= asObs
  let o' ← field j "obs2" >>= asObs
  let m := (c.run periodOf).toObs
  let m' := (c'.run periodOf).toObs
  pure (Json.mkObj
    [ ("in_dom", toJson (c.inDom && c'.inDom && c.validParams periodOf)),
      ("stricter", toJson (stricter c c')),
      ("holds", toJson (C16.holds o o')),
      ("agree1", toJson (conforms (c.spec periodOf) o)),
      ("agree2", toJson (conforms (c'.spec periodOf) o')),
      ("model_holds", toJson (C16.holds m m')),
      ("model", obsToJson m), ("model2", obsToJson m') ])

def asTransform (j : Json) : D Transform := do
  let k ← field j "kind" >>= asStr
  match k with
  | "addValue" => .addValue <$> (field j "k" >>= asRat)
  | "negate" => pure .negate
  | "shiftTime" => .shiftTime <$> (field j "tau" >>= asInt)
  | "shiftBoth" => .shiftBoth <$> (field j "k" >>= asRat)
  | "reverse" => pure .reverse
  | "perturb" => do pure (.perturb (← field j "j" >>= asNat) (← getOpt asRat j "v"))
  | "perturbAux" => do pure (.perturbAux (← field j "j" >>= asNat) (← getOpt asRat j "v"))
  | "perturbPos" => do
    pure (.perturbPos (← field j "j" >>= asNat) (← getOpt asRat j "lon") (← getOpt asRat j "lat")
      (← field j "hops" >>= asList asV))
  | s => throw s!"unknown transform {s}"

/-- kind = "c17": a call, a transformation, the transformed call as the harness built it, and
    the two observations. -/
def handleC17 (j : Json) : D Json := do
  let c ← field j "call" >>= asCall
  let t ← field j "transform" >>= asTransform
  let c2 ← field j "call2" >>= asCall
  let o ← field j "obs" >>= asObs
  let o' ← field j "obs2" >>= asObs
  let applied := applyT t c
  let same := match applied with | some c' => decide (c' = c2) | none => false
  let m := (c.run periodOf).toObs
  let m' := (c2.run periodOf).toObs
  pure (Json.mkObj
    [ ("in_dom", toJson (c.inDom && c2.inDom && c.validParams periodOf)),
      ("applies", toJson applied.isSome),
      ("same_transform", toJson same),
      ("holds", toJson (C17.holds t c o o')),
      ("agree1", toJson (conforms (c.spec periodOf) o)),
      ("agree2", toJson (conforms (c2.spec periodOf) o')),
      ("model_holds", toJson (C17.holds t c m m')),
      ("model", obsToJson m), ("model2", obsToJson m') ])

/-- kind = "c15": one logical call, the observations obtained through several carriers. -/
def handleC15 (j : Json) : D Json := do
  let c ← field j "call" >>= asCall
  let os ← field j "obs_list" >>= asList asObs
  let m := (c.run periodOf).toObs
  pure (Json.mkObj
    [ ("in_dom", toJson (c.inDom && c.validParams periodOf)),
      ("holds", toJson (C15.holds periodOf c os)),
      ("conform", Json.arr (os.map fun o => toJson (conforms (c.spec periodOf) o)).toArray),
      ("model", obsToJson m) ])

def dispatch (kind : String) (j : Json) : D Json :=
  match kind with
  | "test" => handleTest j
  | "period" => handlePeriod j
  | "agg" => handleAgg j
  | "fx_eval" => handleFxEval j
  | "fx_valid" => handleFxValid j
  | "window" => handleWindow j
  | "c16" => handleC16 j
  | "c17" => handleC17 j
  | "c15" => handleC15 j
  | k => throw s!"unknown kind {k}"

end IoosQc.Handlers
