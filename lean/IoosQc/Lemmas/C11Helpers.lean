/-
  IoosQc.Lemmas.C11Helpers — ingredients of C11 (flat_line_test):
  * `Array.qsort` keeps every entry inside any predicate that held for all entries, and keeps the
    size (so sorting a constant list returns the same constant list) ⇒ `medianStep_regular`;
  * `⌊⌊θ⌋ / D⌋ = ⌊θ / D⌋` for an integer step `D ≥ 1` ⇒ `flatCount_eq`;
  * `spread` (|max − min|) is max − min ⇒ `flatHit_eq`;
  * override resolution `flatAt_spec` / `flatAt_any`.
  `Array.qsort.sort` / `Array.qpartition.loop` are private to core, hence `open private`.
-/
import IoosQc.Lemmas.Basic
import Batteries.Tactic.OpenPrivate
set_option linter.unusedSimpArgs false
set_option linter.unusedVariables false

namespace IoosQc
open private Array.qsort.sort from Init.Data.Array.QSort.Basic
open private Array.qpartition.loop from Init.Data.Array.QSort.Basic

section qsort
variable {α : Type} (P : α → Prop)

/-- Every entry of the vector satisfies `P`. -/
def AllV {n : Nat} (as : Vector α n) : Prop := ∀ t (ht : t < n), P as[t]

theorem qsort_swap_all {n : Nat} (as : Vector α n) (i j : Nat) (hi : i < n) (hj : j < n)
    (h : AllV P as) : AllV P (as.swap i j hi hj) := by
  intro t ht
  rw [Vector.getElem_swap]
  split
  · exact h _ _
  · split <;> exact h _ _

theorem qsort_ite_swap_all {n : Nat} (c : Prop) [Decidable c] (as : Vector α n) (i j : Nat) (hi : i < n)
    (hj : j < n) (h : AllV P as) : AllV P (if c then as.swap i j hi hj else as) := by
  by_cases hc : c
  · simp only [hc, if_true]; exact qsort_swap_all P _ _ _ _ _ h
  · simp only [hc, if_false]; exact h

theorem qpartition_loop_all {n : Nat} (lt : α → α → Bool) (lo hi : Nat) (hhi : hi < n) (pivot : α) :
    ∀ (d : Nat) (as : Vector α n) (i k : Nat) (ilo : lo ≤ i) (ik : i ≤ k) (w : k ≤ hi),
      hi - k = d → AllV P as →
      AllV P (Array.qpartition.loop lt lo hi hhi pivot as i k ilo ik w).2 := by
  intro d
  induction d with
  | zero =>
    intro as i k ilo ik w hd h
    rw [Array.qpartition.loop.eq_def]
    have : ¬ k < hi := by omega
    simp only [this, dite_false]
    exact qsort_swap_all P _ _ _ _ _ h
  | succ d ih =>
    intro as i k ilo ik w hd h
    rw [Array.qpartition.loop.eq_def]
    have : k < hi := by omega
    simp only [this, dite_true]
    split
    · exact ih _ _ _ _ _ _ (by omega) (qsort_swap_all P _ _ _ _ _ h)
    · exact ih _ _ _ _ _ _ (by omega) h

theorem qpartition_all {n : Nat} (lt : α → α → Bool) (as : Vector α n) (lo hi : Nat)
    (w : lo ≤ hi) (hlo : lo < n) (hhi : hi < n) (h : AllV P as) :
    AllV P (Array.qpartition as lt lo hi w hlo hhi).2 := by
  unfold Array.qpartition
  simp only []
  apply qpartition_loop_all P _ _ _ _ _ _ _ _ _ _ _ _ rfl
  apply qsort_ite_swap_all
  apply qsort_ite_swap_all
  apply qsort_ite_swap_all
  exact h

theorem qsort_sort_all {n : Nat} (lt : α → α → Bool) :
    ∀ (d : Nat) (as : Vector α n) (lo hi : Nat) (w : lo ≤ hi) (hlo : lo < n) (hhi : hi < n),
      hi - lo ≤ d → AllV P as → AllV P (Array.qsort.sort lt as lo hi w hlo hhi) := by
  intro d
  induction d with
  | zero =>
    intro as lo hi w hlo hhi hd h
    rw [Array.qsort.sort.eq_def]
    have : ¬ lo < hi := by omega
    simp only [this, dite_false]
    exact h
  | succ d ih =>
    intro as lo hi w hlo hhi hd h
    rw [Array.qsort.sort.eq_def]
    split
    · have hp := qpartition_all P lt as lo hi w hlo hhi h
      split
      next mid hmid as' heq =>
        rw [heq] at hp
        split
        · exact hp
        · apply ih _ _ _ _ _ _ (by omega)
          apply ih _ _ _ _ _ _ (by omega)
          exact hp
    · exact h

theorem qsort_all (lt : α → α → Bool) (as : Array α) (lo hi : Nat) (h : ∀ x ∈ as, P x) :
    ∀ x ∈ as.qsort lt lo hi, P x := by
  unfold Array.qsort
  split
  · exact h
  · intro x hx
    simp only [] at hx
    obtain ⟨i, hi, rfl⟩ := Array.mem_iff_getElem.1 hx
    have hi' : i < as.size := by simpa using hi
    simp only [Vector.getElem_toArray]
    exact qsort_sort_all P lt _ as.toVector _ _ _ _ _ (Nat.le_refl _) (fun t ht => h _ (by simp)) i hi'

theorem qsort_size (lt : α → α → Bool) (as : Array α) (lo hi : Nat) :
    (as.qsort lt lo hi).size = as.size := by
  unfold Array.qsort
  split
  · rfl
  · simp
end qsort

theorem sortInts_length (l : List Int) : (sortInts l).length = l.length := by
  unfold sortInts
  simp [qsort_size]

theorem sortInts_all (P : Int → Prop) (l : List Int) (h : ∀ x ∈ l, P x) : ∀ x ∈ sortInts l, P x := by
  unfold sortInts
  intro x hx
  have hx' : x ∈ l.toArray.qsort (fun a b => decide (a < b)) := by simpa using hx
  exact qsort_all P _ l.toArray _ _ (by simpa using h) x hx'

theorem medianStep_regular (ts : List Int) (D : Int) (rest : List Int)
    (hd : diffs ts = D :: rest) (hr : regularStep ts D = true) : medianStep ts = D := by
  unfold medianStep
  have hlen := sortInts_length (diffs ts)
  have hall := sortInts_all (· = D) (diffs ts) (by
    unfold regularStep at hr
    simpa using hr)
  generalize sortInts (diffs ts) = d at *
  have hget : ∀ i, i < d.length → d.getD i 0 = D := by
    intro i hi
    have : d[i] ∈ d := List.getElem_mem hi
    simpa [List.getD_eq_getElem?_getD, hi] using hall _ this
  have hpos : 0 < d.length := by rw [hlen, hd]; simp
  simp only []
  split
  · omega
  · split
    · exact hget _ (by omega)
    · rw [hget _ (by omega), hget _ (by omega)]; omega


/-! ### floor of a quotient -/

theorem intCast_le_div_int_iff (z : Int) (θ : Rat) (D : Int) (hD : 1 ≤ D) :
    (z : Rat) ≤ θ / (D : Rat) ↔ ((z * D : Int) : Rat) ≤ θ := by
  have hD' : (0 : Rat) < (D : Rat) := by
    have : ((0 : Int) : Rat) < (D : Rat) := Rat.intCast_lt_intCast.2 (by omega)
    simpa using this
  have hne : (D : Rat) ≠ 0 := by grind
  have hc : θ / (D : Rat) * (D : Rat) = θ := Rat.div_mul_cancel hne
  rw [Rat.intCast_mul]
  constructor
  · intro h
    have := Rat.mul_le_mul_of_nonneg_right h (Rat.le_of_lt hD')
    rwa [hc] at this
  · intro h
    rw [← hc] at h
    exact Rat.le_of_mul_le_mul_right h hD'

theorem floor_div_int (θ : Rat) (D : Int) (hD : 1 ≤ D) :
    θ.floor / D = (θ / (D : Rat)).floor := by
  have key : ∀ z : Int, z ≤ θ.floor / D ↔ z ≤ (θ / (D : Rat)).floor := by
    intro z
    rw [Int.le_ediv_iff_mul_le (by omega), Rat.le_floor_iff, Rat.le_floor_iff, intCast_le_div_int_iff z θ D hD]
  apply Int.le_antisymm
  · exact (key _).1 (Int.le_refl _)
  · exact (key _).2 (Int.le_refl _)

theorem flatCount_eq (θ : Rat) (D : Int) (hD : 1 ≤ D) :
    flatCount θ D = ((θ / (D : Rat)).floor).toNat := by
  unfold flatCount; rw [floor_div_int θ D hD]

/-! ### spread, hits, override resolution -/

theorem foldl_rmin_le (vs : List Rat) : ∀ a : Rat, vs.foldl rmin a ≤ a := by
  induction vs with
  | nil => intro a; simp
  | cons x xs ih =>
    intro a
    simp only [List.foldl_cons]
    have h1 := ih (rmin a x)
    have h2 : rmin a x ≤ a := by unfold rmin; split <;> grind
    grind

theorem le_foldl_rmax (vs : List Rat) : ∀ a : Rat, a ≤ vs.foldl rmax a := by
  induction vs with
  | nil => intro a; simp
  | cons x xs ih =>
    intro a
    simp only [List.foldl_cons]
    have h1 := ih (rmax a x)
    have h2 : a ≤ rmax a x := by unfold rmax; split <;> grind
    grind

theorem spread_cons (v : Rat) (vs : List Rat) :
    spread (v :: vs) = some (vs.foldl rmax v - vs.foldl rmin v) := by
  have h1 := foldl_rmin_le vs v
  have h2 := le_foldl_rmax vs v
  simp only [spread, lmax, lmin, rabs]
  have : ¬ (vs.foldl rmax v - vs.foldl rmin v < 0) := by grind
  simp [this]

theorem flatHit_eq (xs : List V) (k : Nat) (tol : Rat) (i : Nat) :
    flatHit xs k tol i = flatWindowBelow xs k tol i := by
  unfold flatHit flatWindowBelow
  cases h : present (windowEnding xs i k) with
  | nil => simp [spread, lmax]
  | cons v vs => simp [spread_cons]

theorem flatAt_spec (D : Int) (hD : 1 ≤ D) (sus fail tol : Rat) (xs : List V) (i : Nat)
    (ks kf : Nat) (hks : ks = ((sus / (D : Rat)).floor).toNat) (hkf : kf = ((fail / (D : Rat)).floor).toNat)
    (hn : ¬ xs.length < 3) :
    flatAt ks kf tol xs i ∈ flatSpecAt (some D) sus fail tol xs i := by
  subst hks hkf
  unfold flatAt flatSpecAt overrides
  simp only [flatHit_eq, hn, if_false]
  cases getV xs i <;> simp <;> split <;> simp_all <;> split <;> simp_all

theorem flatAt_any (sus fail tol : Rat) (xs : List V) (i : Nat) (ks kf : Nat)
    (hn : ¬ xs.length < 3) :
    flatAt ks kf tol xs i ∈ flatSpecAt none sus fail tol xs i := by
  unfold flatAt flatSpecAt overrides
  simp only [hn, if_false]
  cases getV xs i <;> simp <;> split <;> simp_all <;> split <;> simp_all
end IoosQc
