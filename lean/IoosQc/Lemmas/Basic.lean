/-
  IoosQc.Lemmas.Basic — helper lemmas shared by the property theorems.
-/
import IoosQc.Props.C01C02

namespace IoosQc

theorem Flag.code_inj {f g : Flag} (h : (f.code : Int) = (g.code : Int)) : f = g := by
  cases f <;> cases g <;> simp [Flag.code] at h <;> rfl

theorem Flag.ofCode_code (f : Flag) : Flag.ofCode? (f.code : Int) = some f := by
  cases f <;> rfl

theorem Flag.isFlagCode_code (f : Flag) : isFlagCode (f.code : Int) = true := by
  cases f <;> rfl

theorem allowedCode_iff (al : List Flag) (f : Flag) : allowedCode al (f.code : Int) = true ↔ f ∈ al := by
  unfold allowedCode
  simp only [List.any_eq_true, beq_iff_eq]
  constructor
  · rintro ⟨g, hg, h⟩
    have := Flag.code_inj h
    subst this; exact hg
  · intro h; exact ⟨f, h, rfl⟩

theorem conformsList_map {α : Type} (l : List α) (al : α → List Flag) (fl : α → Flag)
    (h : ∀ x ∈ l, fl x ∈ al x) :
    conformsList (l.map al) ((l.map fl).map fun f => (f.code : Int)) = true := by
  induction l with
  | nil => rfl
  | cons x xs ih =>
    simp only [List.map_cons, conformsList, Bool.and_eq_true]
    refine ⟨(allowedCode_iff _ _).2 (h x (by simp)), ih ?_⟩
    intro y hy; exact h y (by simp [hy])

/-- The same, for two maps over `List.range n`. -/
theorem conforms_flags_range (n : Nat) (al : Nat → List Flag) (fl : Nat → Flag)
    (h : ∀ i, i < n → fl i ∈ al i) :
    conforms (.flags ((List.range n).map al)) (Res.toObs (.ok ((List.range n).map fl))) = true := by
  simp only [conforms, Res.toObs]
  exact conformsList_map _ _ _ (fun i hi => h i (List.mem_range.1 hi))

theorem conforms_flags_map {α : Type} (l : List α) (al : α → List Flag) (fl : α → Flag)
    (h : ∀ x ∈ l, fl x ∈ al x) :
    conforms (.flags (l.map al)) (Res.toObs (.ok (l.map fl))) = true := by
  simp only [conforms, Res.toObs]
  exact conformsList_map _ _ _ h

/-- The decidable domain condition `hopsConsistent` gives the unbounded statement the theorems use. -/
theorem hcons_of_consistent (lon lat hops : List V) (h : hopsConsistent lon lat hops = true) :
    ∀ j, (getV lon j).isNone ∨ (getV lat j).isNone ∨ (getV lon (j + 1)).isNone ∨
        (getV lat (j + 1)).isNone → getV hops j = none := by
  intro j hj
  by_cases hlt : j < hops.length
  · unfold hopsConsistent at h
    rw [Bool.and_eq_true] at h
    replace h := h.1
    rw [List.all_eq_true] at h
    have := h j (List.mem_range.2 hlt)
    rcases hj with h1 | h1 | h1 | h1 <;> simp [h1] at this <;> exact this
  · unfold getV
    simp [List.getD, List.getElem?_eq_none (Nat.le_of_not_lt hlt)]

theorem hopsExact_of_consistent (lon lat hops : List V) (h : hopsConsistent lon lat hops = true) :
    hopsExact lon lat hops = true := by
  unfold hopsConsistent at h
  rw [Bool.and_eq_true] at h
  exact h.2

end IoosQc
