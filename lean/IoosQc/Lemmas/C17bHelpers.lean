/-
  IoosQc.Lemmas.C17bHelpers — ingredients of C17 (locality half):
  * `eqOutside` from a pointwise statement (`c17b_eqOutside_of_getElem?`), and the two shapes the
    models come in: `(List.range n).map F` and `xs.map f` against `(xs.set j v).map f`;
  * `List.set` does not touch the other positions (`c17b_getV_set_ne`, `c17b_windowEnding_set`);
  * "valid parameters ⇒ the model does not raise, and what it returns is a map of a pointwise
    function that does not depend on the series" for the tests with parameter checks.
-/
import IoosQc.Lemmas.Basic
import IoosQc.Props.C17
set_option linter.unusedSimpArgs false
set_option linter.unusedVariables false

namespace IoosQc

/-! ### `eqOutside` from a pointwise statement -/

theorem c17b_eqOutside_of_getElem? (c : TestCall) (j : Nat) :
    ∀ (a b : List Int) (k : Nat), a.length = b.length →
      (∀ i, i < a.length → nbhd c j (k + i) = false → a[i]? = b[i]?) →
      eqOutside c j k a b = true := by
  intro a
  induction a with
  | nil =>
    intro b k hlen _
    cases b with
    | nil => simp [eqOutside]
    | cons y bs => simp at hlen
  | cons x as ih =>
    intro b k hlen h
    cases b with
    | nil => simp at hlen
    | cons y bs =>
      simp only [eqOutside, Bool.and_eq_true, Bool.or_eq_true, beq_iff_eq]
      refine ⟨?_, ih bs (k + 1) (by simpa using hlen) ?_⟩
      · cases hn : nbhd c j k with
        | true => exact Or.inl rfl
        | false =>
          right
          have := h 0 (by simp) (by simpa using hn)
          simpa using this
      · intro i hi hn
        have hk : k + (i + 1) = k + 1 + i := by omega
        have := h (i + 1) (by simp; omega) (by rw [hk]; exact hn)
        simpa using this

/-- Any perturbation transform: `C17.holds` on two flag lists is `eqOutside`. -/
theorem c17b_holds_flags (t : Transform) (j : Nat) (c : TestCall) (hp : isPerturb t = some j)
    (a b : List Int) :
    C17.holds t c (.flags a) (.flags b) = eqOutside c j 0 a b := by
  cases t <;> simp [isPerturb] at hp <;> subst hp <;> simp [C17.holds, isPerturb]

/-- Models of the shape `(List.range n).map F`. -/
theorem c17b_holds_range (t : Transform) (j : Nat) (c : TestCall) (hp : isPerturb t = some j)
    (n : Nat) (F G : Nat → Flag)
    (h : ∀ i, i < n → nbhd c j i = false → F i = G i) :
    C17.holds t c (Res.toObs (.ok ((List.range n).map F)))
                  (Res.toObs (.ok ((List.range n).map G))) = true := by
  simp only [Res.toObs]
  rw [c17b_holds_flags t j c hp]
  apply c17b_eqOutside_of_getElem?
  · simp
  · intro i hi hn
    have hi' : i < n := by simpa using hi
    have hn' : nbhd c j i = false := by simpa using hn
    simp [List.getElem?_map, List.getElem?_range, hi', h i hi' hn']

/-- Models of the shape `xs.map f` (pointwise tests): the neighbourhood only has to contain `j`. -/
theorem c17b_holds_map (t : Transform) (j : Nat) (c : TestCall) (hp : isPerturb t = some j)
    (xs : List V) (v : V) (f : V → Flag)
    (h : ∀ i, nbhd c j i = false → i ≠ j) :
    C17.holds t c (Res.toObs (.ok (xs.map f)))
                  (Res.toObs (.ok ((xs.set j v).map f))) = true := by
  simp only [Res.toObs]
  rw [c17b_holds_flags t j c hp]
  apply c17b_eqOutside_of_getElem?
  · simp
  · intro i hi hn
    have hne : i ≠ j := h i (by simpa using hn)
    simp [List.getElem?_map, List.getElem?_set_ne (Ne.symm hne)]

/-- Two equal outputs. -/
theorem c17b_holds_refl (t : Transform) (j : Nat) (c : TestCall) (hp : isPerturb t = some j)
    (fs : List Flag) :
    C17.holds t c (Res.toObs (.ok fs)) (Res.toObs (.ok fs)) = true := by
  simp only [Res.toObs]
  rw [c17b_holds_flags t j c hp]
  apply c17b_eqOutside_of_getElem?
  · rfl
  · intros; rfl

/-! ### `List.set` leaves the other positions alone -/

theorem c17b_getV_set_ne (xs : List V) (j i : Nat) (v : V) (h : i ≠ j) :
    getV (xs.set j v) i = getV xs i := by
  unfold getV
  simp [List.getD_eq_getElem?_getD, List.getElem?_set_ne (Ne.symm h)]

theorem c17b_getV_set_all (xs : List V) (j : Nat) (v : V) (is : List Nat) (h : j ∉ is) :
    is.map (getV (xs.set j v)) = is.map (getV xs) := by
  apply List.map_congr_left
  intro i hi
  exact c17b_getV_set_ne xs j i v (fun e => h (e ▸ hi))

/-- The `k+1` points ending at `i` do not contain position `j` when `j > i` or `j + k < i`. -/
theorem c17b_windowEnding_set (xs : List V) (j i k : Nat) (v : V) (hk : k ≤ i)
    (h : i < j ∨ j + k < i) :
    windowEnding (xs.set j v) i k = windowEnding xs i k := by
  unfold windowEnding
  apply List.ext_getElem?
  intro m
  simp only [List.getElem?_take, List.getElem?_drop]
  split
  · rw [List.getElem?_set_ne (by omega)]
  · rfl

/-- Hop distance ending at `i` under `hopsAgreeExcept j`. -/
theorem c17b_hopAt_agree (j : Nat) (h h' : List V) (ha : hopsAgreeExcept j h h' = true)
    (i : Nat) (hi : nbhd (.roc [] [] 0) j i = false) : hopAt h' i = hopAt h i := by
  unfold hopAt
  split
  · rfl
  · rename_i hi0
    simp only [nbhd, Bool.or_eq_false_iff, beq_eq_false_iff_ne] at hi
    unfold hopsAgreeExcept at ha
    simp only [Bool.and_eq_true, beq_iff_eq, List.all_eq_true, List.mem_range, Bool.or_eq_true] at ha
    by_cases hlt : i - 1 < h.length
    · have := ha.2 (i - 1) hlt
      rcases this with (e | e) | e
      · omega
      · omega
      · exact e.symm
    · unfold getV
      have h1 : h.length ≤ i - 1 := by omega
      have h2 : h'.length ≤ i - 1 := by omega
      simp [List.getD_eq_getElem?_getD, List.getElem?_eq_none h1, List.getElem?_eq_none h2]

end IoosQc
