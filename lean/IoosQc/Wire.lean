/-
  IoosQc.Wire — JSON decoding / encoding for the line protocol between the Python harness and
  the Lean driver.  Rationals travel as `[num, den]` integer pairs (exact images of the float64
  values the harness chose), missing values as `null`, flags as their numeric codes.
-/
import Lean.Data.Json
import IoosQc.Props.Spec
import IoosQc.Model.Defaults

open Lean

namespace IoosQc.Wire

abbrev D := Except String

def field (j : Json) (k : String) : D Json := j.getObjVal? k

def optField (j : Json) (k : String) : Option Json :=
  match j.getObjVal? k with
  | .ok v => if v.isNull then none else some v
  | .error _ => none

def asInt (j : Json) : D Int := j.getInt?
def asNat (j : Json) : D Nat := j.getNat?
def asStr (j : Json) : D String := j.getStr?
def asBool (j : Json) : D Bool := j.getBool?

def asRat (j : Json) : D Rat :=
  match j with
  | .arr #[n, d] => do
    let n ← n.getInt?
    let d ← d.getNat?
    if d = 0 then throw "zero denominator" else pure (mkRat n d)
  | _ => do let n ← j.getInt?; pure (n : Rat)

def asV (j : Json) : D V := if j.isNull then pure none else some <$> asRat j

def asList {α} (f : Json → D α) (j : Json) : D (List α) := do
  let a ← j.getArr?
  a.toList.mapM f

def asOpt {α} (f : Json → D α) (j : Json) : D (Option α) :=
  if j.isNull then pure none else some <$> f j

def getOpt {α} (f : Json → D α) (j : Json) (k : String) : D (Option α) :=
  match optField j k with
  | none => pure none
  | some v => some <$> f v

def asSeqArg (j : Json) : D SeqArg := do
  let s ← field j "seq" >>= asBool
  let v ← field j "vals" >>= asList asRat
  pure ⟨s, v⟩

def asPair (j : Json) : D (Rat × Rat) :=
  match j with
  | .arr #[a, b] => do pure (← asRat a, ← asRat b)
  | _ => throw "pair expected"

def asPeriod (j : Json) : D Period := do
  match (← asStr j) with
  | "year" => pure .year | "month" => pure .month | "week" => pure .week
  | "weekofyear" => pure .week | "dayofyear" => pure .dayofyear | "dayofweek" => pure .dayofweek
  | "quarter" => pure .quarter | "day" => pure .day | "hour" => pure .hour
  | s => throw s!"unknown period {s}"

def asMember (j : Json) : D Member := do
  let t ← field j "tspan" >>= asPair
  let v ← field j "vspan" >>= asPair
  let f ← getOpt asPair j "fspan"
  let z ← getOpt asPair j "zspan"
  let p ← getOpt asPeriod j "period"
  -- `ClimatologyConfig.add` sorts every span
  pure ⟨sort2 t.1 t.2, sort2 v.1 v.2, f.map (fun s => sort2 s.1 s.2), z.map (fun s => sort2 s.1 s.2), p⟩

def asCall (j : Json) : D TestCall := do
  let fn ← field j "fn" >>= asStr
  let vs (k : String) : D (List V) := field j k >>= asList asV
  let ts (k : String) : D (List Int) := field j k >>= asList asInt
  let rat (k : String) : D Rat := field j k >>= asRat
  let orat (k : String) : D (Option Rat) := getOpt asRat j k
  match fn with
  | "gross" => do
    pure (.gross (← field j "fail" >>= asSeqArg) (← getOpt asSeqArg j "suspect") (← vs "inp"))
  | "valid" => do
    pure (.valid (← getOpt asRat j "lo") (← getOpt asRat j "hi")
      ((← getOpt asBool j "start_incl").getD Defaults.validStartInclusive)
      ((← getOpt asBool j "end_incl").getD Defaults.validEndInclusive) (← vs "inp"))
  | "location" => do
    pure (.location (← vs "lon") (← vs "lat") ((← getOpt asSeqArg j "bbox").getD ⟨true, Defaults.locationBBox⟩)
      (← orat "range_max") (← vs "hops"))
  | "climatology" => do
    pure (.climatology (← field j "members" >>= asList asMember) (← vs "inp") (← ts "t") (← vs "z"))
  | "spike" => do
    pure (.spike ((← getOpt asStr j "method").getD Defaults.spikeMethod) (← orat "sus") (← orat "fail") (← vs "inp"))
  | "roc" => do pure (.roc (← vs "inp") (← ts "t") (← rat "thr"))
  | "flat" => do pure (.flatLine (← vs "inp") (← ts "t") (← rat "sus") (← rat "fail") ((← orat "tol").getD Defaults.flatTolerance))
  | "atten" => do
    pure (.attenuated ((← getOpt asStr j "check_type").getD Defaults.attenCheckType) (← vs "inp") (← ts "t") (← rat "sus")
      (← rat "fail") (← orat "period") (← getOpt asNat j "min_obs") (← orat "min_period"))
  | "density" => do pure (.density (← vs "inp") (← vs "z") (← orat "sus") (← orat "fail"))
  | "pressure" => do pure (.pressure (← vs "inp"))
  | "speed" => do
    pure (.speed (← vs "lon") (← vs "lat") (← ts "t") (← rat "sus") (← rat "fail") (← vs "hops"))
  | s => throw s!"unknown fn {s}"

def asErr (j : Json) : D Err := do
  match (← asStr j) with
  | "ValueError" => pure .value | "TypeError" => pure .type | "AssertionError" => pure .assertion
  | "IndexError" => pure .index | "AttributeError" => pure .attribute | _ => pure .other

def asObs (j : Json) : D Obs := do
  match optField j "error" with
  | some e => .error <$> asErr e
  | none => .flags <$> (field j "flags" >>= asList asInt)

def obsToJson : Obs → Json
  | .flags cs => Json.mkObj [("flags", Json.arr (cs.map (fun (c : Int) => (toJson c))).toArray)]
  | .error e => Json.mkObj [("error", Json.str e.name)]

def specToJson : SpecOut → Json
  | .flags al => Json.mkObj [("allowed", Json.arr (al.map fun a => Json.arr (a.map fun f => toJson f.code).toArray).toArray)]
  | .reject none => Json.mkObj [("reject", Json.str "any")]
  | .reject (some e) => Json.mkObj [("reject", Json.str e.name)]

end IoosQc.Wire
