/-
  IoosQc.Model.Aggregate — `qartod.qartod_compare` / `qartod.aggregate`.

  Code: result starts MISSING; for p in [MISSING, UNKNOWN, GOOD, SUSPECT, FAIL], for each vector
  v: `result[np.where(v == p)] = p`.  A cell of an input vector is a flag, a masked entry
  (`v == p` is masked there and `np.where` treats it as False) or any other number.
-/
import IoosQc.Model.Basic

namespace IoosQc

inductive Cell where
  | flag (f : Flag)
  | masked
  | junk (n : Int)       -- a value that is not a flag
  deriving DecidableEq, Repr, Inhabited

def priorities : List Flag := [.missing, .unknown, .good, .suspect, .fail]

/-- One pass of the inner loop for priority `p` over the cells of one position. -/
def passFor (p : Flag) (acc : Flag) (col : List Cell) : Flag :=
  col.foldl (fun a c => if c = .flag p then p else a) acc

/-- The aggregate at one position, given the cells of all vectors there (in vector order). -/
def compareAt (col : List Cell) : Flag :=
  priorities.foldl (fun acc p => passFor p acc col) .missing

/-- Column `i` of a list of vectors. -/
def column (vs : List (List Cell)) (i : Nat) : List Cell := vs.map fun v => v.getD i .masked

/-- `qartod_compare(vectors)`: IndexError on an empty list, AssertionError on unequal lengths. -/
def qartodCompare (vs : List (List Cell)) : Res :=
  match vs with
  | [] => throw .index
  | v :: rest =>
    if rest.all (fun w => w.length == v.length) then
      pure ((List.range v.length).map fun i => compareAt (column vs i))
    else throw .assertion

end IoosQc
