/-
  IoosQc.Model.Defaults — the default values of the optional parameters of the QC tests, as the
  signatures in /repo declare them.  When the harness leaves a keyword out of the real call it
  also leaves it out on the wire; the decoder (`Wire.asCall`) then fills in THESE values, so the
  model, not the harness, decides what an omitted argument means.  The source pin of C03 / C09 /
  C11 / C12 / C14 (harness/extract.py) checks them against the signatures on every run.
-/
import IoosQc.Model.Basic

namespace IoosQc.Defaults

def validStartInclusive : Bool := true      -- axds.valid_range_test(start_inclusive=True, …)
def validEndInclusive : Bool := false       -- axds.valid_range_test(…, end_inclusive=False)
def spikeMethod : String := "average"       -- qartod.spike_test(method="average")
def flatTolerance : Rat := 0                -- qartod.flat_line_test(tolerance=0)
def attenCheckType : String := "std"        -- qartod.attenuated_signal_test(check_type="std")
def locationBBox : List Rat := [-180, -90, 180, 90]   -- qartod.location_test(bbox=(-180, -90, 180, 90))

end IoosQc.Defaults
