/-
  IoosQc.Model.Config — `config.Config` / `config.ContextConfig`: from a parsed configuration
  tree to the list of calls, and `utils.dict_depth`, `utils.dict_update`,
  `utils.load_config_from_xarray`.

  A configuration source (dict, OrderedDict, YAML / JSON text, StringIO, file path) is parsed by
  third-party code into a tree `J`; this file models what ioos_qc does with that tree.
-/
import IoosQc.Model.Basic

namespace IoosQc

/-- A parsed configuration tree (JSON / YAML data model). -/
inductive J where
  | null
  | bool (b : Bool)
  | num (q : Rat)
  | str (s : String)
  | arr (xs : List J)
  | obj (kvs : List (String × J))
  deriving Repr, Inhabited

mutual
/-- `utils.dict_depth`: mappings count, lists do not (it does not descend into lists). -/
def J.depth : J → Nat
  | .obj kvs => 1 + J.depthVals kvs
  | _ => 0
def J.depthVals : List (String × J) → Nat
  | [] => 0
  | (_, v) :: rest => max v.depth (J.depthVals rest)
end

mutual
def J.beq : J → J → Bool
  | .null, .null => true
  | .bool a, .bool b => a == b
  | .num a, .num b => a == b
  | .str a, .str b => a == b
  | .arr a, .arr b => J.beqList a b
  | .obj a, .obj b => J.beqKvs a b
  | _, _ => false
def J.beqList : List J → List J → Bool
  | [], [] => true
  | x :: xs, y :: ys => x.beq y && J.beqList xs ys
  | _, _ => false
def J.beqKvs : List (String × J) → List (String × J) → Bool
  | [], [] => true
  | (k, x) :: xs, (l, y) :: ys => k == l && x.beq y && J.beqKvs xs ys
  | _, _ => false
end

def J.get? (j : J) (k : String) : Option J :=
  match j with
  | .obj kvs => (kvs.find? (·.1 = k)).map (·.2)
  | _ => none

def J.has (j : J) (k : String) : Bool := (j.get? k).isSome

def J.items : J → List (String × J)
  | .obj kvs => kvs
  | _ => []

/-- One configured call: what `Config(source).calls` exposes. -/
structure CallSpec where
  stream : String
  module : String
  test : String
  kwargs : J           -- the configured parameters (`kwargs or {}`)
  window : J           -- the context's window mapping, `null` when absent
  region : J           -- the context's region, `null` when absent / ignored
  deriving Repr, Inhabited

def CallSpec.beq (a b : CallSpec) : Bool :=
  a.stream == b.stream && a.module == b.module && a.test == b.test && a.kwargs.beq b.kwargs &&
  a.window.beq b.window && a.region.beq b.region

/-- `kwargs or {}`: a falsy parameter value (None, empty mapping) becomes the empty mapping. -/
def orEmpty (j : J) : J :=
  match j with
  | .null => .obj []
  | .obj [] => .obj []
  | x => x

/-- Region handling of `ContextConfig`: Feature-based or geometry-based GeoJSON is kept, anything
    else is ignored. -/
def regionOf (c : J) : J :=
  match c.get? "region" with
  | some r => if r.has "features" || r.has "geometry" then r else .null
  | none => .null

/-- `ContextConfig(c).calls`: the stream → module → test loop with its two skip rules.
    `known m t` says whether `ioos_qc.<m>` imports and has attribute `t`; `knownMod m` whether it
    imports at all. -/
def contextCalls (knownMod : String → Bool) (known : String → String → Bool) (c : J) : List CallSpec :=
  let window := (c.get? "window").getD .null
  let region := regionOf c
  ((c.get? "streams").getD (.obj [])).items.flatMap fun (sid, sc) =>
    sc.items.flatMap fun (pkg, mods) =>
      if !knownMod pkg then []
      else mods.items.filterMap fun (tname, kw) =>
        if known pkg tname then some ⟨sid, pkg, tname, orEmpty kw, window, region⟩ else none

/-- `Config(source)` on the parsed tree: the layout dispatch. -/
def configCalls (knownMod : String → Bool) (known : String → String → Bool) (defaultKey : String) (cfg : J) : List CallSpec :=
  if cfg.has "contexts" then
    (match cfg.get? "contexts" with
     | some (.arr cs) => cs.flatMap (contextCalls knownMod known)
     | _ => [])
  else if cfg.has "streams" then contextCalls knownMod known cfg
  else if 4 ≤ cfg.depth then contextCalls knownMod known (.obj [("streams", cfg)])
  else contextCalls knownMod known (.obj [("streams", .obj [(defaultKey, cfg)])])

/-! ### The tests that exist -/

def realTests : List (String × String) :=
  [ ("qartod", "aggregate"), ("qartod", "qartod_compare"), ("qartod", "gross_range_test"), ("qartod", "location_test"),
    ("qartod", "climatology_test"), ("qartod", "spike_test"), ("qartod", "rate_of_change_test"),
    ("qartod", "flat_line_test"), ("qartod", "attenuated_signal_test"), ("qartod", "density_inversion_test"),
    ("argo", "pressure_increasing_test"), ("argo", "speed_test"), ("axds", "valid_range_test") ]

def realModule (m : String) : Bool := m == "qartod" || m == "argo" || m == "axds"
def realTest (m t : String) : Bool := realTests.contains (m, t)

/-! ### `dict_update` and the xarray attribute loader -/

mutual
/-- `dict_update(d, u)` for mappings `d`, `u`: recursive merge, `u` wins on leaves. -/
def J.update (d : J) (u : List (String × J)) (fuel : Nat) : J :=
  match fuel with
  | 0 => d
  | fuel + 1 =>
    u.foldl (fun acc kv =>
      match acc with
      | .obj dk =>
        (match kv.2 with
         | .obj uv =>
           let cur := ((dk.find? (·.1 = kv.1)).map (·.2)).getD (.obj [])
           J.setKey (.obj dk) kv.1 (J.update cur uv fuel)
         | leaf => J.setKey (.obj dk) kv.1 leaf)
      | _ => .obj [(kv.1, kv.2)]) d
def J.setKey (d : J) (k : String) (v : J) : J :=
  match d with
  | .obj kvs => if kvs.any (·.1 = k) then .obj (kvs.map fun p => if p.1 = k then (k, v) else p) else .obj (kvs ++ [(k, v)])
  | _ => .obj [(k, v)]
end

/-- The four QC attributes of one data variable. -/
structure VarAttrs where
  target : String
  module : String
  test : String
  config : J
  deriving Repr, Inhabited

/-- `load_config_from_xarray` without a global attribute: merge the per-variable entries into a
    stream mapping. -/
def fromVarAttrs (vs : List VarAttrs) : J :=
  vs.foldl (fun y v =>
    let cur := (y.get? v.target).getD (.obj [])
    J.setKey y v.target (J.update cur [(v.module, .obj [(v.test, v.config)])] 8)) (.obj [])

end IoosQc
