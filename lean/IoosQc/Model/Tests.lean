/-
  IoosQc.Model.Tests — executable models of the eleven QC test functions
  (`ioos_qc.qartod`, `ioos_qc.argo`, `ioos_qc.axds`).

  Reading convention (DESIGN.md §2.2): every vectorised Python body is read *pointwise*; the
  ordered numpy assignments `flag_arr[cond] = X` become one `overrides init [(cond_i, X), …]`
  in the same order with the same strict / non-strict comparisons.  Missing values are `none`
  and compare `False`, as NaN does.
-/
import IoosQc.Model.Basic

namespace IoosQc

/-! ## gross_range_test -/

def outside (x : V) (s : Rat × Rat) : Bool := vlt x s.1 || vgt x s.2

def grossAt (f : Rat × Rat) (s : Option (Rat × Rat)) (x : V) : Flag :=
  overrides .good
    [ (x.isNone, .missing),
      ((match s with | some u => outside x u | none => false), .suspect),
      (outside x f, .fail) ]

def grossRange (fail : SeqArg) (suspect : Option SeqArg) (inp : List V) : Res := do
  fixedLength fail 2
  match fail.vals with
  | [a, b] =>
    let f := sort2 a b
    match suspect with
    | none => pure (inp.map (grossAt f none))
    | some s =>
      fixedLength s 2
      match s.vals with
      | [c, d] =>
        let u := sort2 c d
        if u.1 < f.1 || f.2 < u.2 then throw .value
        else pure (inp.map (grossAt f (some u)))
      | _ => throw .value
  | _ => throw .value

/-! ## axds.valid_range_test -/

def validAt (lo hi : V) (startIncl endIncl : Bool) (x : V) : Flag :=
  overrides .good
    [ ((match lo with
        | some l => if startIncl then vlt x l else vle x l
        | none => false), .fail),
      ((match hi with
        | some h => if endIncl then vgt x h else vge x h
        | none => false), .fail),
      (x.isNone, .missing) ]

def validRange (lo hi : V) (startIncl endIncl : Bool) (inp : List V) : Res :=
  pure (inp.map (validAt lo hi startIncl endIncl))

/-! ## location_test -/

structure Box where
  minx : Rat
  miny : Rat
  maxx : Rat
  maxy : Rat
  deriving Repr, DecidableEq, Inhabited

/-- Hop distance ending at `i`: 0 at the first point (`np.ma.zeros`), otherwise the supplied
    geodesic distance from `i-1` to `i` (missing when any of the four coordinates is). -/
def hopAt (hops : List V) (i : Nat) : V := if i = 0 then some 0 else getV hops (i - 1)

def outsideBox (lon lat : V) (b : Box) : Bool :=
  vlt lon b.minx || vlt lat b.miny || vgt lon b.maxx || vgt lat b.maxy

def locationAt (b : Box) (rangeMax : Option Rat) (n : Nat) (lon lat d : V) : Flag :=
  overrides .good
    [ (lon.isNone && lat.isNone, .missing),
      (lon.isNone != lat.isNone, .fail),
      ((match rangeMax with | some r => decide (1 < n) && vgt d r | none => false), .suspect),
      (outsideBox lon lat b, .fail) ]

def locationTest (lon lat : List V) (bbox : SeqArg) (rangeMax : Option Rat) (hops : List V) : Res := do
  fixedLength bbox 4
  match bbox.vals with
  | [x0, y0, x1, y1] =>
    if lon.length != lat.length then throw .value
    let b : Box := ⟨x0, y0, x1, y1⟩
    let n := lon.length
    pure ((List.range n).map fun i => locationAt b rangeMax n (getV lon i) (getV lat i) (hopAt hops i))
  | _ => throw .value

/-! ## climatology_test -/

/-- Calendar period kinds pandas exposes on a DatetimeIndex (the ones ioos_qc documents). -/
inductive Period where
  | year | month | week | dayofyear | dayofweek | quarter | day | hour
  deriving DecidableEq, Repr, Inhabited

/-- A climatology member after `ClimatologyConfig.add` (spans sorted).  `tspan` is in seconds
    since the epoch when `period = none`, in period units otherwise. -/
structure Member where
  tspan  : Rat × Rat
  vspan  : Rat × Rat
  fspan  : Option (Rat × Rat)
  zspan  : Option (Rat × Rat)
  period : Option Period
  deriving Repr, DecidableEq, Inhabited

def inside (x : Rat) (s : Rat × Rat) : Bool := decide (s.1 ≤ x) && decide (x ≤ s.2)

/-- Does the member apply to (t, z)?  `tv` is the time already mapped to the member's unit. -/
def memberMatches (m : Member) (tv : Rat) (z : V) : Bool :=
  inside tv m.tspan &&
  (match m.zspan with
   | none => true
   | some zs => (match z with | some zv => inside zv zs | none => false))

/-- One member's three assignments FAIL / SUSPECT / GOOD at a point (value `x` may be missing:
    then every comparison is False and GOOD is assigned — the final MISSING assignment of
    `check` repairs that). -/
def memberApply (m : Member) (acc : Flag) (tv : Rat) (x z : V) (noDepth : Bool) : Flag :=
  if m.zspan.isSome && noDepth then acc
  else
    let vi := memberMatches m tv z && (m.zspan.isSome || x.isSome)
    let failI := match m.fspan with | some f => outside x f | none => false
    let susI := outside x m.vspan
    overrides acc
      [ (vi && failI, .fail), (vi && !failI && susI, .suspect), (vi && !failI && !susI, .good) ]

def climAt (periodOf : Period → Int → Int) (ms : List Member) (noDepth : Bool)
    (t : Int) (x z : V) : Flag :=
  let tvOf (m : Member) : Rat := match m.period with | some p => (periodOf p t : Int) | none => (t : Int)
  let f := ms.foldl (fun acc m => memberApply m acc (tvOf m) x z noDepth)
             (overrides .unknown [(x.isNone, .missing)])
  overrides f [(x.isNone, .missing)]

def climatologyTest (periodOf : Period → Int → Int) (ms : List Member)
    (inp : List V) (t : List Int) (z : List V) : Res :=
  let noDepth := z.all Option.isNone
  pure ((List.range inp.length).map fun i =>
    climAt periodOf ms noDepth (t.getD i 0) (getV inp i) (getV z i))

/-! ## spike_test -/

inductive SpikeMethod where | average | differential
  deriving DecidableEq, Repr, Inhabited

def vsub (a b : V) : V := match a, b with | some x, some y => some (x - y) | _, _ => none

/-- Spike magnitude at an interior point; `none` when a needed value is missing. -/
def spikeMag (m : SpikeMethod) (p x q : V) : V :=
  match p, x, q with
  | some p, some x, some q =>
    (match m with
     | .average => some (rabs (x - (p + q) / 2))
     | .differential =>
        let a := x - p
        let b := q - x
        if a * b < 0 then some (rmin (rabs a) (rabs b)) else some 0)
  | _, _, _ => none

/-- The `diff` array of the code at position `i`.  At the two ends the code leaves
    `|x - 0|` (average; masked iff `x` is) or an unmasked 0 (differential). -/
def spikeDiff (m : SpikeMethod) (xs : List V) (i : Nat) : V :=
  let n := xs.length
  if i = 0 ∨ i + 1 = n then
    (match m with
     | .average => (getV xs i).map rabs
     | .differential => some 0)
  else spikeMag m (getV xs (i - 1)) (getV xs i) (getV xs (i + 1))

def spikeAt (m : SpikeMethod) (sus fail : Option Rat) (xs : List V) (i : Nat) : Flag :=
  let d := spikeDiff m xs i
  overrides .good
    [ ((match sus with | some s => vgt d s | none => false), .suspect),
      ((match fail with | some f => vgt d f | none => false), .fail),
      (i = 0, .unknown),
      (i + 1 = xs.length, .unknown),
      (d.isNone, .missing) ]

def spikeTest (method : String) (sus fail : Option Rat) (inp : List V) : Res :=
  match (if method = "average" then some SpikeMethod.average
         else if method = "differential" then some SpikeMethod.differential else none) with
  | none => throw .value
  | some m => pure ((List.range inp.length).map (spikeAt m sus fail inp))

/-! ## rate_of_change_test -/

/-- Rate at `i`: 0 at the first point, `|Δx / Δt|` otherwise (missing if either value is). -/
def rocRate (xs : List V) (ts : List Int) (i : Nat) : V :=
  if i = 0 then some 0
  else match getV xs (i - 1), getV xs i with
    | some a, some b => some (rabs ((b - a) / ((ts.getD i 0 - ts.getD (i - 1) 0 : Int) : Rat)))
    | _, _ => none

def rocAt (thr : Rat) (xs : List V) (ts : List Int) (i : Nat) : Flag :=
  overrides .good [ (vgt (rocRate xs ts i) thr, .suspect), ((getV xs i).isNone, .missing) ]

def rocTest (inp : List V) (ts : List Int) (thr : Rat) : Res :=
  if inp.length != ts.length then throw .value
  else pure ((List.range inp.length).map (rocAt thr inp ts))

/-! ## flat_line_test -/

def sortInts (l : List Int) : List Int := (l.toArray.qsort (· < ·)).toList

def diffs (ts : List Int) : List Int := List.zipWith (fun a b => b - a) ts ts.tail

/-- `np.median(np.diff(tinp)).astype('timedelta64[s]')` on whole-second axes: the middle
    difference, or the floor of the mean of the two middle ones. -/
def medianStep (ts : List Int) : Int :=
  let d := sortInts (diffs ts)
  let m := d.length
  if m = 0 then 0
  else if m % 2 = 1 then d.getD (m / 2) 0
  else (d.getD (m / 2 - 1) 0 + d.getD (m / 2) 0) / 2

/-- The `k+1` points ending at `i` (requires `k ≤ i`). -/
def windowEnding (xs : List V) (i k : Nat) : List V := (xs.drop (i - k)).take (k + 1)

def present (w : List V) : List Rat := w.filterMap id

def lmax : List Rat → Option Rat
  | [] => none
  | v :: vs => some (vs.foldl rmax v)
def lmin : List Rat → Option Rat
  | [] => none
  | v :: vs => some (vs.foldl rmin v)

/-- max − min of the present values; `none` when there is none. -/
def spread (vs : List Rat) : Option Rat :=
  match lmax vs, lmin vs with
  | some a, some b => some (rabs (a - b))
  | _, _ => none

def flatHit (xs : List V) (k : Nat) (tol : Rat) (i : Nat) : Bool :=
  decide (k ≤ i) && (match spread (present (windowEnding xs i k)) with
                      | some r => decide (r < tol) | none => false)

/-- `(int(threshold) / time_interval).astype(int)` for non-negative thresholds, D ≥ 1. -/
def flatCount (thr : Rat) (D : Int) : Nat := (thr.floor / D).toNat

def flatAt (ks kf : Nat) (tol : Rat) (xs : List V) (i : Nat) : Flag :=
  overrides .good
    [ (flatHit xs ks tol i, .suspect), (flatHit xs kf tol i, .fail), ((getV xs i).isNone, .missing) ]

def flatLineTest (inp : List V) (ts : List Int) (sus fail tol : Rat) : Res :=
  let n := inp.length
  if n < 3 then pure (inp.map fun x => overrides .good [(x.isNone, .missing)])
  else
    let D := medianStep ts
    pure ((List.range n).map (flatAt (flatCount sus D) (flatCount fail D) tol inp))

/-! ## attenuated_signal_test -/

inductive CheckType where | std | range
  deriving DecidableEq, Repr, Inhabited

def rsum (l : List Rat) : Rat := l.foldl (· + ·) 0

/-- Sum of squared deviations from the mean. -/
def sqDev (l : List Rat) : Rat :=
  let μ := rsum l / l.length
  rsum (l.map fun v => (v - μ) * (v - μ))

/-- The spread statistic, kept as a *variance* for `std` (no square roots in ℚ). -/
inductive Stat where
  | var (v : Rat)      -- a variance: compare with threshold²
  | lin (v : Rat)      -- a range: compare directly
  | undef              -- NaN
  deriving Repr, DecidableEq, Inhabited

/-- `stat < θ`. -/
def Stat.lt (s : Stat) (θ : Rat) : Bool :=
  match s with
  | .var v => decide (0 < θ) && decide (v < θ * θ)
  | .lin v => decide (v < θ)
  | .undef => false
/-- `stat ≥ θ`. -/
def Stat.ge (s : Stat) (θ : Rat) : Bool :=
  match s with
  | .var v => decide (θ ≤ 0) || decide (θ * θ ≤ v)
  | .lin v => decide (θ ≤ v)
  | .undef => false
def Stat.isUndef : Stat → Bool | .undef => true | _ => false

/-- Whole-series statistic: population std / range of the present values. -/
def wholeStat (ct : CheckType) (xs : List V) : Stat :=
  let p := present xs
  if p.isEmpty then .undef
  else match ct with
    | .std => .var (sqDev p / p.length)
    | .range => (match spread p with | some r => .lin r | none => .undef)

/-- Indices `j ≤ i` with `t_j > t_i − P`: the trailing window `(t − P, t]`. -/
def trailing (ts : List Int) (P : Rat) (i : Nat) : List Nat :=
  (List.range (i + 1)).filter fun j => decide (((ts.getD i 0 : Int) : Rat) - P < ((ts.getD j 0 : Int) : Rat))

/-- Windowed statistic as pandas computes it: `rolling(f"{P}s", min_periods=minp)` then
    `.std()` (ddof = 1, NaN skipped) or `.apply(np.ptp, raw=True)` (NaN poisons). -/
def windowStat (ct : CheckType) (minp : Nat) (xs : List V) (ts : List Int) (P : Rat) (i : Nat) : Stat :=
  let w := (trailing ts P i).map (getV xs)
  let p := present w
  if p.length < minp then .undef
  else match ct with
    | .std => if p.length < 2 then .undef else .var (sqDev p / (p.length - 1 : Nat))
    | .range => if p.length < w.length then .undef
                else (match spread p with | some r => .lin r | none => .undef)

def attenAt (s : Stat) (sus fail : Rat) (x : V) : Flag :=
  overrides .unknown
    [ (s.ge sus, .good), (s.lt sus, .suspect), (s.isUndef, .unknown), (s.lt fail, .fail),
      (x.isNone, .missing) ]

/-- `min_periods` handed to pandas: `min_obs`, else `int(min_period / D)`, else pandas' default
    for time windows (1). -/
def attenMinp (minObs : Option Nat) (minPeriod : Option Rat) (ts : List Int) : Nat :=
  match minObs, minPeriod with
  | some m, _ => m
  | none, some mp => ((mp / ((medianStep ts : Int) : Rat)).floor).toNat
  | none, none => 1

def attenuatedTest (checkType : String) (inp : List V) (ts : List Int) (sus fail : Rat)
    (period : Option Rat) (minObs : Option Nat) (minPeriod : Option Rat) : Res :=
  match (if checkType = "std" then some CheckType.std
         else if checkType = "range" then some CheckType.range else none) with
  | none => throw .value
  | some ct =>
    match period with
    | none =>
      let s := wholeStat ct inp
      pure (inp.map (attenAt s sus fail))
    | some P =>
      let minp := attenMinp minObs minPeriod ts
      -- pandas: min_periods = 0 still needs one observation for a defined statistic
      pure ((List.range inp.length).map fun i =>
        attenAt (windowStat ct (max minp 1) inp ts P i) sus fail (getV inp i))

/-! ## density_inversion_test -/

/-- `sign(Δz) · Δρ` for the pair (j, j+1); missing when any of the four values is. -/
def densDelta (rho z : List V) (j : Nat) : V :=
  match getV rho j, getV rho (j + 1), getV z j, getV z (j + 1) with
  | some r0, some r1, some z0, some z1 => some (rsign (z1 - z0) * (r1 - r0))
  | _, _, _, _ => none

/-- Is position `i` a member of an adjacent pair whose delta is below `thr`? -/
def densPairBelow (rho z : List V) (thr : Rat) (i : Nat) : Bool :=
  (decide (i + 1 < rho.length) && vlt (densDelta rho z i) thr) ||
  (decide (0 < i) && vlt (densDelta rho z (i - 1)) thr)

def recMissing (rho z : List V) (i : Nat) : Bool := (getV rho i).isNone || (getV z i).isNone

def densAt (sus fail : Option Rat) (rho z : List V) (i : Nat) : Flag :=
  overrides .good
    [ ((match sus with | some s => densPairBelow rho z s i | none => false), .suspect),
      ((match fail with | some f => densPairBelow rho z f i | none => false), .fail),
      (recMissing rho z i, .missing),
      (decide (0 < i) && recMissing rho z (i - 1), .missing) ]

def densityTest (rho z : List V) (sus fail : Option Rat) : Res :=
  if rho.length != z.length then throw .value
  else if rho.length = 0 then pure []
  else if rho.length < 2 then pure [.unknown]
  else pure ((List.range rho.length).map (densAt sus fail rho z))

/-! ## argo.pressure_increasing_test -/

def vsum : List V → V
  | [] => some 0
  | x :: xs => (match x, vsum xs with | some a, some b => some (a + b) | _, _ => none)

def pressDelta (p : List V) (j : Nat) : V := vsub (getV p (j + 1)) (getV p j)

/-- Direction flip: the code multiplies the steps by `sign(mean)` only when it is negative. -/
def pressFlip (p : List V) : Bool :=
  match vsum ((List.range (p.length - 1)).map (pressDelta p)) with
  | some s => decide (s < 0)
  | none => false

def pressAt (p : List V) (flip : Bool) (i : Nat) : Flag :=
  overrides .good
    [ (decide (0 < i) &&
        (match pressDelta p (i - 1) with
         | some d => if flip then decide (0 ≤ d) else decide (d ≤ 0)
         | none => false), .suspect) ]

def pressureTest (p : List V) : Res :=
  pure ((List.range p.length).map (pressAt p (pressFlip p)))

/-! ## argo.speed_test -/

def speedAt (sus fail : Rat) (lon lat : List V) (ts : List Int) (hops : List V) (i : Nat) : Flag :=
  let d := hopAt hops i
  let v : V := if i = 0 then some 0
               else d.map fun m => rabs (m / ((ts.getD i 0 - ts.getD (i - 1) 0 : Int) : Rat))
  overrides .good
    [ ((getV lon i).isNone && (getV lat i).isNone, .missing),
      (vgt v sus, .suspect),
      (vgt v fail, .fail),
      (i = 0, .unknown),
      (d.isNone, .missing) ]

def speedTest (lon lat : List V) (ts : List Int) (sus fail : Rat) (hops : List V) : Res :=
  if lon.length != lat.length || lon.length != ts.length then throw .value
  else if lon.length = 0 then pure []
  else if lon.length < 2 then pure [.unknown]
  else pure ((List.range lon.length).map (speedAt sus fail lon lat ts hops))

/-! ## One type for "a call of a QC test" -/

inductive TestCall where
  | gross (fail : SeqArg) (suspect : Option SeqArg) (inp : List V)
  | valid (lo hi : V) (startIncl endIncl : Bool) (inp : List V)
  | location (lon lat : List V) (bbox : SeqArg) (rangeMax : Option Rat) (hops : List V)
  | climatology (ms : List Member) (inp : List V) (t : List Int) (z : List V)
  | spike (method : String) (sus fail : Option Rat) (inp : List V)
  | roc (inp : List V) (t : List Int) (thr : Rat)
  | flatLine (inp : List V) (t : List Int) (sus fail tol : Rat)
  | attenuated (checkType : String) (inp : List V) (t : List Int) (sus fail : Rat)
      (period : Option Rat) (minObs : Option Nat) (minPeriod : Option Rat)
  | density (rho z : List V) (sus fail : Option Rat)
  | pressure (p : List V)
  | speed (lon lat : List V) (t : List Int) (sus fail : Rat) (hops : List V)
  deriving Repr, Inhabited, DecidableEq

def TestCall.run (periodOf : Period → Int → Int) : TestCall → Res
  | .gross f s inp => grossRange f s inp
  | .valid lo hi si ei inp => validRange lo hi si ei inp
  | .location lon lat b r h => locationTest lon lat b r h
  | .climatology ms inp t z => climatologyTest periodOf ms inp t z
  | .spike m s f inp => spikeTest m s f inp
  | .roc inp t thr => rocTest inp t thr
  | .flatLine inp t s f tol => flatLineTest inp t s f tol
  | .attenuated ct inp t s f p mo mp => attenuatedTest ct inp t s f p mo mp
  | .density rho z s f => densityTest rho z s f
  | .pressure p => pressureTest p
  | .speed lon lat t s f h => speedTest lon lat t s f h

/-- Length of the primary series of a call (the number of flags C01 demands). -/
def TestCall.size : TestCall → Nat
  | .gross _ _ inp | .valid _ _ _ _ inp | .climatology _ inp _ _ | .spike _ _ _ inp
  | .roc inp _ _ | .flatLine inp _ _ _ _ | .attenuated _ inp _ _ _ _ _ _ | .density inp _ _ _
  | .pressure inp => inp.length
  | .location lon _ _ _ _ | .speed lon _ _ _ _ _ => lon.length

end IoosQc
