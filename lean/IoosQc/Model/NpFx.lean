/-
  IoosQc.Model.NpFx — source-shaped transcription of `config_creator.fx_parser.evaluate_stack` and of the
  evaluation half of `eval_fx` (regenerated from /repo by harness/translate.py and kernel-pinned against this file).

  An entry of `exprStack` is a string or the `(name, nargs)` tuple `fn_call` inserts.  The list the function pops
  from is kept REVERSED (head = top of the stack), so `s.pop()` is a pattern match; the recursion is open (`self`
  stands for the recursive calls) and tied by `tie` with fuel, which stands for Python's unbounded recursion.  `float(op)` is a parameter (`pyFloat`; `none` = ValueError).  Values outside ℚ (`math.pi`,
  `math.e`, `operator.pow`, the functions of `fn`) are not modelled: the transcription stops with `.unmodelled`
  there, and the refinement theorem only speaks about stacks of the property's grammar.
-/
import IoosQc.Model.Fx

namespace IoosQc.NpFx
open IoosQc

inductive SE where
  | str (s : String)
  | call (name : String) (n : Nat)
  deriving DecidableEq, Repr, Inhabited

inductive FxErr where
  | raised          -- a Python exception (IndexError, KeyError, ZeroDivisionError, ValueError, Exception)
  | unmodelled      -- a value outside ℚ
  deriving DecidableEq, Repr, Inhabited

abbrev FxR := Except FxErr

/-- the functions of the `operator` module bound in `opn` -/
inductive Op2 where | add | sub | mul | truediv | pow
  deriving DecidableEq, Repr, Inhabited

/-- `s.pop()` on the reversed list -/
def pop (s : List SE) : FxR (SE × List SE) :=
  match s with
  | [] => .error .raised
  | x :: r => .ok (x, r)

/-- `op, num_args = s.pop(), 0` followed by `if isinstance(op, tuple): op, num_args = op` -/
def untuple : SE → String × Nat
  | .str t => (t, 0)
  | .call n k => (n, k)

/-- Python's `a in b` for two strings: `a` is a substring of `b` -/
def strIn (a b : String) : Bool :=
  (List.range (b.toList.length + 1)).any fun i => a.toList.isPrefixOf (b.toList.drop i)

/-- `opn[op]` -/
def lookupOp (opn : List (String × Op2)) (op : String) : FxR Op2 :=
  match opn.find? (·.1 == op) with
  | some e => .ok e.2
  | none => .error .raised

/-- `f(op1, op2)` for a function of the `operator` module -/
def Op2.app : Op2 → Rat → Rat → FxR Rat
  | .add, x, y => .ok (x + y)
  | .sub, x, y => .ok (x - y)
  | .mul, x, y => .ok (x * y)
  | .truediv, x, y => if y = 0 then .error .raised else .ok (x / y)
  | .pow, _, _ => .error .unmodelled

/-- `op[0].isalpha()` (ASCII; IndexError on the empty string) -/
def alpha0 (op : String) : FxR Bool :=
  match op.toList with
  | [] => .error .raised
  | c :: _ => .ok c.isAlpha

def fromFloat (o : Option Rat) : FxR Rat :=
  match o with
  | some q => .ok q
  | none => .error .raised

/-- Python's recursion, tied with fuel: `body self s` is the function body with `self` for the recursive calls -/
def tie {α : Type} (body : (List SE → FxR α) → List SE → FxR α) : Nat → List SE → FxR α
  | 0, _ => .error .raised
  | fuel + 1, s => body (tie body fuel) s

end IoosQc.NpFx

/-! ### the transcription (this text is what harness/translate.py regenerates) -/
namespace IoosQc.NpSrc
open IoosQc.NpFx
set_option linter.unusedVariables false

def opn : List (String × Op2) := [("+", .add), ("-", .sub), ("*", .mul), ("/", .truediv), ("^", .pow)]

def fnNames : List String := ["sin", "cos", "tan", "exp", "abs", "trunc", "round", "sgn"]

def evaluate_stack (pyFloat : String → Option Rat) (stats : StatName → Rat)
    (self : List SE → FxR (Rat × List SE)) (s : List SE) : FxR (Rat × List SE) := do
  let (op, s) ← pop s
  let (op, num_args) := untuple op
  if op == "unary -" then
    let (v, s) ← self s
    return (-v, s)
  if strIn op "+-*/^" then
    let (op2, s) ← self s
    let (op1, s) ← self s
    let v ← (← lookupOp opn op).app op1 op2
    return (v, s)
  else if op == "PI" then
    .error .unmodelled
  else if op == "E" then
    .error .unmodelled
  else if op == "mean" then
    return (stats .mean, s)
  else if op == "min" then
    return (stats .min, s)
  else if op == "max" then
    return (stats .max, s)
  else if op == "std" then
    return (stats .std, s)
  else if fnNames.contains op then
    .error .unmodelled
  else if (← alpha0 op) then
    .error .raised
  else
    let v ← fromFloat (pyFloat op)
    return (v, s)

def eval_fx (pyFloat : String → Option Rat) (stats : StatName → Rat) (exprStack : List SE) : FxR Rat := do
  let (val, _) ← tie (evaluate_stack pyFloat stats) (exprStack.length + 1) exprStack.reverse
  return val

end IoosQc.NpSrc
