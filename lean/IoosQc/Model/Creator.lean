/-
  IoosQc.Model.Creator — the statistics side of `QcConfigCreator.create_config`
  (`config_creator._get_stats` / `_get_subset` / `__create_span_section`).

  Python: `_get_subset` builds `lat_mask = (lat >= bbox[1]) & (lat <= bbox[3])` and
  `lon_mask = (lon >= bbox[0]) & (lon <= bbox[2])` (all four comparisons non-strict), takes
  `ds[var][:, lat_mask, lon_mask]`, interpolates every selected cell in time to DAILY values
  and `_get_stats` returns `nanmin / nanmax / nanmean / nanstd` of the pooled (day, cell) array;
  `__create_span_section` evaluates the limit expressions on those statistics and returns
  `[lo, hi]` unsorted.

  What is modelled: the inclusive box selection, the NaN drop, the pooling of `d` identical days
  (a climatology that is constant in time: every day repeats the cell's value), min / max / mean
  and the population VARIANCE, and the evaluation of two limit expressions.

  What is NOT modelled (outside the model, checked only by the Python-side tests):
  * the square root: `std = √var` — ℚ has no square roots, so `GridStats` carries the variance and
    the caller of `spanOf` supplies a `Stats` record whose `std` is whatever √ the float code took;
  * the periodic cubic-spline interpolation in time (`__daily_cubic_interp`): the model starts
    from its *output* for a time-constant climatology, namely `d` copies of the cell values;
  * the bounding-box padding loop that widens the box while `nansum(subset) == 0`;
  * floating-point rounding (the model is exact rational arithmetic).

  Mathlib-free and executable.
-/
import IoosQc.Model.Fx
import IoosQc.Model.Tests

namespace IoosQc

/-- One cell of the climatology grid; `value = none` is NaN (land / no data). -/
structure GridCell where
  lat : Rat
  lon : Rat
  value : V
  deriving Repr, DecidableEq, Inhabited

/-- `bbox = [minx, miny, maxx, maxy]` (lon / lat / lon / lat), as in the variable config. -/
structure BBox where
  minx : Rat
  miny : Rat
  maxx : Rat
  maxy : Rat
  deriving Repr, DecidableEq, Inhabited

/-- `lat_mask & lon_mask` at one cell: all four comparisons are inclusive. -/
def BBox.contains (b : BBox) (c : GridCell) : Bool :=
  decide (b.miny ≤ c.lat) && decide (c.lat ≤ b.maxy) &&
  decide (b.minx ≤ c.lon) && decide (c.lon ≤ b.maxx)

/-- Values of the non-NaN cells inside the box, in grid order. -/
def insideCells (b : BBox) (cells : List GridCell) : List Rat :=
  cells.filterMap fun c => if b.contains c then c.value else none

/-- The daily pool of a time-constant climatology: `vals` repeated `d` times (day-major). -/
def pooled (d : Nat) (vals : List Rat) : List Rat := List.flatten (List.replicate d vals)

/-- min, max, mean and population *variance* (`np.nanstd` squared, ddof = 0). -/
structure GridStats where
  min : Rat
  max : Rat
  mean : Rat
  var : Rat
  deriving Repr, DecidableEq, Inhabited

/-- Statistics of the pooled non-NaN values; `none` when there is none (numpy: NaN + warning). -/
def gridStats (xs : List Rat) : Option GridStats :=
  match lmin xs, lmax xs with
  | some lo, some hi =>
    some { min := lo, max := hi, mean := rsum xs / xs.length, var := sqDev xs / xs.length }
  | _, _ => none

/-- The `Stats` record handed to `eval_fx`; the square root of the variance is supplied from
    outside (`std * std = g.var` is the caller's obligation, not expressible by computation in ℚ). -/
def GridStats.toStats (g : GridStats) (std : Rat) : Stats :=
  { min := g.min, max := g.max, mean := g.mean, std := std }

/-- `[eval_fx(lo, stats), eval_fx(hi, stats)]` — not sorted; `none` when either expression
    divides by zero (Python raises). -/
def spanOf (st : Stats) (lo hi : Expr) : Option (Rat × Rat) :=
  match lo.eval st, hi.eval st with
  | some a, some b => some (a, b)
  | _, _ => none

/-- `create_config`'s span for a time-constant climatology over `d` days, given the square root. -/
def creatorSpan (b : BBox) (cells : List GridCell) (d : Nat) (std : Rat) (lo hi : Expr) :
    Option (Rat × Rat) :=
  match gridStats (pooled d (insideCells b cells)) with
  | some g => spanOf (g.toStats std) lo hi
  | none => none

end IoosQc
