/-
  IoosQc.Model.Streams — time-window subsetting of the stream front ends and `Call.run`'s
  keyword filtering, at the level the properties talk about.

  Rows are identified by their position; a window is a pair of optional bounds in whole
  seconds.  Each front end computes the boolean `subset_indexes` its own way:
    * NumpyStream / NetcdfStream:  `ones & (t >= starting) & (t < ending)`
    * PandasStream: a positional boolean mask, `&=` with each comparison the window defines, then
      `.loc[mask]` (after the repair of F-22; before it: two successive `.loc` filters, then
      membership of the surviving row LABELS in the frame's index — `pandasMaskOld`)
    * XarrayStream: a boolean mask on the time coordinate turned into integer positions
  The mechanisms are modelled separately and proved equal to the specification `specMask`.
-/
import IoosQc.Model.Basic

namespace IoosQc

structure Window where
  starting : Option Int
  ending : Option Int
  deriving Repr, DecidableEq, Inhabited

/-- The property's window: starting ≤ t < ending, an absent bound being open. -/
def inWindow (w : Window) (t : Int) : Bool :=
  (match w.starting with | some a => decide (a ≤ t) | none => true) &&
  (match w.ending with | some b => decide (t < b) | none => true)

def specMask (w : Window) (ts : List Int) : List Bool := ts.map (inWindow w)

/-- NumpyStream: start from all-True, `&` with each comparison that the window defines. -/
def numpyMask (w : Window) (ts : List Int) : List Bool :=
  let m0 := ts.map fun _ => true
  let m1 := match w.starting with
    | some a => List.zipWith (fun m t => m && decide (a ≤ t)) m0 ts
    | none => m0
  match w.ending with
  | some b => List.zipWith (fun m t => m && decide (t < b)) m1 ts
  | none => m1

/-- PandasStream (rows carry labels, which play no part): `in_window = ones; in_window &= (t >= starting);
    in_window &= (t < ending)` on the time column, by position. -/
def pandasMask (w : Window) (rows : List (Nat × Int)) : List Bool := numpyMask w (rows.map (·.2))

/-- PandasStream BEFORE the repair of F-22: filter rows twice, then mark the rows whose LABEL
    survived (`index.isin(subset.index)`) — wrong as soon as two rows share a label. -/
def pandasMaskOld (w : Window) (rows : List (Nat × Int)) : List Bool :=
  let s1 := match w.starting with
    | some a => rows.filter fun (r : Nat × Int) => decide (a ≤ r.2)
    | none => rows
  let s2 := match w.ending with
    | some b => s1.filter fun (r : Nat × Int) => decide (r.2 < b)
    | none => s1
  rows.map fun r => s2.any fun q => q.1 == r.1

/-- XarrayStream: positions of the selected time labels, scattered into an all-False mask. -/
def xarrayMask (w : Window) (ts : List Int) : List Bool :=
  let keep := (List.range ts.length).filter fun i => inWindow w (ts.getD i 0)
  (List.range ts.length).map fun i => keep.contains i


/-! ### Rows without a usable timestamp (NaT)

A row whose time is NaT satisfies no comparison: it belongs to every context that has no
window at all (nothing is subset then) and to no context that has a bound. -/

def inWindowOpt (w : Window) (t : Option Int) : Bool :=
  match t with
  | some t => inWindow w t
  | none => w.starting.isNone && w.ending.isNone

def specMaskOpt (w : Window) (ts : List (Option Int)) : List Bool := ts.map (inWindowOpt w)

/-- `t >= a` / `t < b` on a datetime column: False at NaT. -/
def geOpt (a : Int) (t : Option Int) : Bool := match t with | some t => decide (a ≤ t) | none => false
def ltOpt (b : Int) (t : Option Int) : Bool := match t with | some t => decide (t < b) | none => false

/-- The NumpyStream mechanism (`ones & (t >= starting) & (t < ending)`) on a column with NaT;
    PandasStream's two `.loc` filters and XarrayStream's `in_window &= …` compare alike. -/
def numpyMaskOpt (w : Window) (ts : List (Option Int)) : List Bool :=
  let m0 := ts.map fun _ => true
  let m1 := match w.starting with
    | some a => List.zipWith (fun m t => m && geOpt a t) m0 ts
    | none => m0
  match w.ending with
  | some b => List.zipWith (fun m t => m && ltOpt b t) m1 ts
  | none => m1

/-- Rows of a column selected by a mask (`arr[mask]`). -/
def selectRows {α : Type} (mask : List Bool) (xs : List α) : List α :=
  (List.zip mask xs).filterMap fun p => if p.1 then some p.2 else none

end IoosQc
