/-
  IoosQc.Model.NpCollect — `results.collect_results_dict` in the form `harness/translate.py`
  regenerates from /repo's source (see `Model/NpSrc.lean` for the conventions): two nested `for`
  loops over the yielded ContextResults and their CallResults, a dict keyed by
  (stream id, package, test) whose arrays start as copies of an all-UNKNOWN template and receive
  `arr[r.subset_indexes] = results` context after context.  `Theorems/NpSrc8.lean` proves that
  every key ends with the fold `collectDict` (Model/Results) describes.
  (The `isinstance(r, CallResult)` shortcut for `QcConfig.run` results is outside the stream
  pipeline the property is about and is dropped.)
-/
import IoosQc.Model.Results

namespace IoosQc.NpSrc

/-- one CallResult: package, test, flags of the subset rows -/
structure TR where
  package : String
  test : String
  results : List Int
  deriving Repr, DecidableEq, Inhabited

/-- one ContextResult as the dict collector reads it -/
structure CR where
  stream : String
  subset : List Bool
  results : List TR
  deriving Repr, DecidableEq, Inhabited

abbrev DKey := String × String × String
abbrev DState := List (DKey × List (Option Int))

/-- `key in collected[…][…]`, `collected[…][…][key]`, `collected[…][…][key] = v` on an insertion-ordered mapping -/
def dlookup (d : DState) (k : DKey) : Option (List (Option Int)) :=
  match d with
  | [] => none
  | p :: ps => if p.1 = k then some p.2 else dlookup ps k
def dhas (d : DState) (k : DKey) : Bool := (dlookup d k).isSome
def dget (d : DState) (k : DKey) : List (Option Int) := (dlookup d k).getD []
/-- assignment keeps the position of an existing key and appends a new one (insertion order) -/
def dset (d : DState) (k : DKey) (v : List (Option Int)) : DState :=
  match d with
  | [] => [(k, v)]
  | p :: ps => if p.1 = k then (k, v) :: ps else p :: dset ps k v

/-- `np.ma.empty_like(mask, dtype="uint8")` then `.fill(x)`; `np.copy` -/
def emptyLikeFilled (mask : List Bool) (x : Int) : List (Option Int) := mask.map fun _ => some x

-- BEGIN GENERATED (harness/translate.py)
def collect_results_dict (results : List CR) : DState := Id.run do
  let mut collected : DState := []
  for r in results do
    let flag_arr := emptyLikeFilled r.subset 2
    for tr in r.results do
      let testpackage := tr.package
      let testname := tr.test
      let testresults := tr.results
      if !(dhas collected (r.stream, testpackage, testname)) then
        collected := dset collected (r.stream, testpackage, testname) flag_arr
      collected := dset collected (r.stream, testpackage, testname) (scatter (dget collected (r.stream, testpackage, testname)) r.subset testresults)
  return collected
-- END GENERATED

end IoosQc.NpSrc
