/-
  IoosQc.Model.NpAgg — the numpy primitives `qartod_compare` is written in, and its source-shaped
  transcription (the translator's output, see `Model/NpSrc.lean` for the conventions).  Kept apart from
  `Model/Np.lean` because the cells here are those of `Model/Aggregate.lean` (a flag, a masked entry, a
  number that is no flag), not the float cells of `Np`.
-/
import IoosQc.Model.Np
import IoosQc.Model.Aggregate

namespace IoosQc.Np

/-! ### `qartod_compare`: vectors of flags (cells of `Model/Aggregate`: a flag, a masked entry, or a number that is no flag) -/

/-- `np.where(v == p)[0]`: `v == p` of a masked vector is False (under the mask: the comparison of the masks) at masked entries,
    False at numbers that are not the flag. -/
def whereEq (v : List IoosQc.Cell) (p : Flag) : List Nat :=
  (List.range v.length).filter fun i => v.getD i .masked == .flag p

/-- `np.ma.empty(shapes[0])`: IndexError when there is no vector; the content is unspecified (here GOOD) until `.fill`. -/
def maEmpty (shape0 : Option Nat) : Except Err (List Flag) :=
  match shape0 with | none => throw .index | some n => pure (List.replicate n .good)

/-- `result.fill(x)` -/
def fillWith (a : List Flag) (x : Flag) : List Flag := a.map fun _ => x

end IoosQc.Np

namespace IoosQc.NpSrc
open IoosQc.Np

-- BEGIN GENERATED (harness/translate.py)
def qartod_compare (vectors : List (List IoosQc.Cell)) : Res := do
  let mut shapes := vectors.map fun v => v.length
  if !(shapes.all fun s => some s == shapes[0]?) then
    throw .assertion
  let mut result ← maEmpty shapes[0]?
  result := fillWith result .missing
  let mut priorities := [Flag.missing, Flag.unknown, Flag.good, Flag.suspect, Flag.fail]
  for p in priorities do
    for v in vectors do
      let mut idx := whereEq v p
      result := setIdx result idx p
  return result
-- END GENERATED

end IoosQc.NpSrc
