/-
  IoosQc.Model.Np — an ARRAY-LEVEL model of the numpy / numpy.ma operations the QC tests are
  written in, and array-level transcriptions of four tests (`gross_range_test`,
  `rate_of_change_test`, `spike_test`, `location_test`) that follow the Python bodies statement
  by statement.

  Why a second layer.  `Model/Tests.lean` reads every vectorised body POINTWISE and treats a
  missing value as one logical thing (`none`).  The code does not: a `numpy.ma.MaskedArray` is a
  pair (raw data, mask); arithmetic keeps raw data under the mask (for `a + b` the first
  operand's), comparisons are computed on the raw data, and `flag_arr[cond] = X` with a masked
  boolean `cond` uses `cond`'s RAW data.  A flag can therefore be assigned from a number "under
  the mask"; the code relies on a later `flag_arr[….mask] = MISSING` to repair that.  This file
  models those mechanics explicitly; `Theorems/NpRefine.lean` proves that the array-level
  transcriptions compute exactly what the pointwise models compute, for all inputs — so the
  pointwise reading is justified by proof, not by sampling.

  The primitives' agreement with the installed numpy is checked by the correspondence run
  (`kind = "np"` requests: the same operation on the same cells in numpy and here, data AND mask
  compared), and the transcriptions are regenerated from /repo's current source by
  `harness/translate.py` and compared with the definitions below by the kernel.

  Cells: a float64 on the properties' input domain is a finite number or NaN.
-/
import IoosQc.Model.Tests

namespace IoosQc.Np

/-- A float64 value on the input domain. -/
inductive Fl where
  | num (q : Rat)
  | nan
  deriving DecidableEq, Repr, Inhabited

def Fl.isNan : Fl → Bool | .nan => true | .num _ => false

def Fl.lift2 (f : Rat → Rat → Rat) : Fl → Fl → Fl
  | .num a, .num b => .num (f a b)
  | _, _ => .nan

def Fl.add := Fl.lift2 (· + ·)
def Fl.sub := Fl.lift2 (· - ·)
def Fl.mul := Fl.lift2 (· * ·)
/-- `np.minimum`: NaN if either argument is. -/
def Fl.min := Fl.lift2 rmin
def Fl.abs : Fl → Fl | .num a => .num (rabs a) | .nan => .nan
/-- `np.sign`: NaN for NaN. -/
def Fl.sign : Fl → Fl | .num a => .num (rsign a) | .nan => .nan
/-- division by a non-zero scalar -/
def Fl.divS (x : Fl) (r : Rat) : Fl := match x with | .num a => .num (a / r) | .nan => .nan
/-- comparisons with a scalar / another cell: False when NaN is involved -/
def Fl.gtS (x : Fl) (r : Rat) : Bool := match x with | .num a => decide (r < a) | .nan => false
def Fl.ltS (x : Fl) (r : Rat) : Bool := match x with | .num a => decide (a < r) | .nan => false
def Fl.geS (x : Fl) (r : Rat) : Bool := match x with | .num a => decide (r ≤ a) | .nan => false

/-- One element of a float masked array: raw data and mask bit. -/
structure Cell where
  d : Fl
  m : Bool
  deriving DecidableEq, Repr, Inhabited

abbrev MArr := List Cell

/-- One element of a boolean masked array (the result of a comparison). -/
structure BCell where
  d : Bool
  m : Bool
  deriving DecidableEq, Repr, Inhabited

abbrev BArr := List BCell

/-- `np.ma.masked_invalid(np.ma.array(inp).astype(np.float64).filled(np.nan))` on a logical
    series: a missing value becomes a masked NaN. -/
def cellOf (v : V) : Cell := match v with | some q => ⟨.num q, false⟩ | none => ⟨.nan, true⟩

def ofInput (xs : List V) : MArr := xs.map cellOf

/-- numpy.ma binary arithmetic (`+ - *`): masks are united; under the mask the result keeps the
    FIRST operand's raw data. -/
def maBin (f : Fl → Fl → Fl) (a b : MArr) : MArr :=
  List.zipWith (fun x y => ⟨if x.m || y.m then x.d else f x.d y.d, x.m || y.m⟩) a b

/-- `ma / scalar` (non-zero scalar): a "domained" numpy.ma operation — besides the operand's
    mask, every non-finite result is masked; under the mask the operand's raw data is kept. -/
def divCell (x : Cell) (r : Rat) : Cell :=
  let m := x.m || (x.d.divS r).isNan
  ⟨if m then x.d else x.d.divS r, m⟩

def maDivS (a : MArr) (r : Rat) : MArr := a.map fun x => divCell x r

/-- A plain ufunc applied to masked arrays (`np.abs`, `np.minimum`): computed on the raw data
    everywhere, masks united. -/
def uf1 (f : Fl → Fl) (a : MArr) : MArr := a.map fun x => ⟨f x.d, x.m⟩
def uf2 (f : Fl → Fl → Fl) (a b : MArr) : MArr := List.zipWith (fun x y => ⟨f x.d y.d, x.m || y.m⟩) a b

/-- `np.ma.masked_invalid` of a masked array: NaN cells become masked as well. -/
def maskedInvalid (a : MArr) : MArr := a.map fun x => ⟨x.d, x.m || x.d.isNan⟩

/-- `np.ma.zeros(n)`. -/
def zeros (n : Nat) : MArr := List.replicate n ⟨.num 0, false⟩

/-- `a[1:]`, `a[:-1]`, `a[2:]`, `a[:-2]`, `a[1:-1]`. -/
def tail1 {α : Type} (a : List α) : List α := a.drop 1
def init1 {α : Type} (a : List α) : List α := a.take (a.length - 1)
def tail2 {α : Type} (a : List α) : List α := a.drop 2
def init2 {α : Type} (a : List α) : List α := a.take (a.length - 2)

/-- `dst[1:-1] = src` (for `dst.length ≥ 2`, `src.length = dst.length - 2`; otherwise numpy
    would raise — the tests guard / the sizes always fit). -/
def setInner {α : Type} (dst src : List α) : List α :=
  match dst with
  | [] => []
  | x :: rest => x :: (src ++ rest.drop src.length)

/-- `dst[1:] = src`. -/
def setTail {α : Type} (dst src : List α) : List α :=
  match dst with
  | [] => []
  | x :: rest => x :: (src ++ rest.drop src.length)

/-- `np.diff(a)` / `np.ma.diff(a)` of a masked array: `np.subtract(a[1:], a[:-1])` called as a
    ufunc — raw data everywhere (NaN as soon as one operand is NaN), masks united.  (Unlike the
    operator `a[1:] - a[:-1]`, which would keep the first operand's data under the mask.) -/
def maDiff (a : MArr) : MArr := uf2 Fl.sub (tail1 a) (init1 a)

/-- `ma / arr` for a plain array of non-zero numbers. -/
def maDivArr (a : MArr) (d : List Rat) : MArr := List.zipWith divCell a d

/-- comparisons of a masked array with a scalar: raw comparison, same mask -/
def gtS (a : MArr) (r : Rat) : BArr := a.map fun x => ⟨x.d.gtS r, x.m⟩
def ltS (a : MArr) (r : Rat) : BArr := a.map fun x => ⟨x.d.ltS r, x.m⟩
def geS (a : MArr) (r : Rat) : BArr := a.map fun x => ⟨x.d.geS r, x.m⟩

/-- `|` of two masked boolean arrays: `np.bitwise_or` as a plain ufunc — raw data everywhere,
    masks united. -/
def bor (a b : BArr) : BArr :=
  List.zipWith (fun x y => ⟨x.d || y.d, x.m || y.m⟩) a b

/-- the `.mask` of a masked array, as a plain boolean array -/
def maskOf (a : MArr) : List Bool := a.map (·.m)

/-- `flag_arr[cond] = x` with a MASKED boolean index: its raw data selects. -/
def setWhereB (fl : List Flag) (cond : BArr) (x : Flag) : List Flag :=
  List.zipWith (fun f c => if c.d then x else f) fl cond

/-- `flag_arr[cond] = x` with a plain boolean index. -/
def setWhere (fl : List Flag) (cond : List Bool) (x : Flag) : List Flag :=
  List.zipWith (fun f c => if c then x else f) fl cond

/-- `arr[cond] = 0` for a float masked array and a MASKED boolean index (numpy: the raw data of
    the index selects, only the data is written, the mask of `arr` stays as it is). -/
def setZeroWhereB (a : MArr) (cond : BArr) : MArr :=
  List.zipWith (fun x c => if c.d then ⟨.num 0, x.m⟩ else x) a cond

/-- `flag_arr[:1] = x`, `flag_arr[-1:] = x`. -/
def setFirst (fl : List Flag) (x : Flag) : List Flag :=
  match fl with | [] => [] | _ :: r => x :: r
def setLast (fl : List Flag) (x : Flag) : List Flag :=
  match fl with | [] => [] | _ => fl.take (fl.length - 1) ++ [x]

def ones (n : Nat) : List Flag := List.replicate n .good

/-- `span(*sorted(x))` for a 2-sequence argument (after `isfixedlength(x, 2)`). -/
def sortedSpan (a : SeqArg) : Except Err (Rat × Rat) :=
  match a.vals with
  | [x, y] => pure (sort2 x y)
  | _ => throw .value

/-- `assert isfixedlength(bbox, 4); bbox = BBOX(*bbox)`. -/
def boxOf (a : SeqArg) : Except Err Box :=
  match a.vals with
  | [x0, y0, x1, y1] => pure ⟨x0, y0, x1, y1⟩
  | _ => throw .value

/-- `a.mask & b.mask`, `a.mask != b.mask` on plain boolean arrays. -/
def band (a b : List Bool) : List Bool := List.zipWith (· && ·) a b
def bxor (a b : List Bool) : List Bool := List.zipWith (fun x y => x != y) a b

/-- The array `utils.great_circle_distance(lat, lon)` returns, given the geodesic hop distances
    (an input of the model, DESIGN §2.2): 0 at the first position, the distance from the previous
    position elsewhere — a MASKED NaN when one of the hop's four coordinates is missing (`np.vectorize` runs the
    solver on the raw data, NaN in gives NaN out, and the frompyfunc ufunc it wraps unites the masks
    of its four masked-array arguments; measured, and compared on every run by `props/np_prims.py`). -/
def hopCell (h : V) : Cell := match h with | some d => ⟨.num d, false⟩ | none => ⟨.nan, true⟩
def greatCircle (hops : List V) (n : Nat) : MArr := (List.range n).map fun i => hopCell (hopAt hops i)

/-- `c == True` for a masked boolean array: numpy.ma's `==` puts, under the mask, the comparison of
    the MASKS (masked vs. the unmasked scalar: False) — so the raw data under the mask never shows. -/
def eqTrue (c : BArr) : BArr := c.map fun x => ⟨!x.m && x.d, x.m⟩

/-- Python's builtin `any(c)` over a masked boolean array: iteration yields `np.ma.masked` (falsy)
    for the masked elements. -/
def anyB (c : BArr) : Bool := c.any fun x => !x.m && x.d

/-- `dst[:-1] = src` / the write-back of a view `dst[:-1][cond] = x` (`src.length = dst.length - 1`). -/
def setInit1 {α : Type} (dst src : List α) : List α := src ++ dst.drop src.length

/-- `flag_arr[0] = x`: IndexError on an empty array. -/
def setAt0 (fl : List Flag) (x : Flag) : Except Err (List Flag) :=
  match fl with | [] => throw .index | _ :: r => pure (x :: r)

/-- `a.mask | b.mask` on plain boolean arrays. -/
def bor2 (a b : List Bool) : List Bool := List.zipWith (· || ·) a b

/-- comparisons `<=`, `>=` with a scalar (raw comparison, same mask) -/
def Fl.leS (x : Fl) (r : Rat) : Bool := match x with | .num a => decide (a ≤ r) | .nan => false
def leS (a : MArr) (r : Rat) : BArr := a.map fun x => ⟨x.d.leS r, x.m⟩

/-- `np.ma.masked_invalid(np.ma.array(inp, dtype=dtype))` (no `.filled(np.nan)`): a missing value is a
    masked cell whose raw datum is WHATEVER the caller's array holds there (`junk`; NaN if it
    does not say). -/
def junkCell (x : V) (j : Fl) : Cell := match x with | some q => ⟨.num q, false⟩ | none => ⟨j, true⟩
def ofInputJunk (xs : List V) (junk : List Fl) : MArr :=
  (List.range xs.length).map fun i => junkCell (getV xs i) (junk.getD i .nan)

/-! ### plain (unmasked) float arrays -/

abbrev FArr := List Fl

/-- `np.ma.filled(np.ma.masked_invalid(np.ma.array(inp).astype(np.float64)), np.nan)`: a plain
    array with NaN at every missing value (whatever was under a mask is replaced). -/
def ofInputFilled (xs : List V) : FArr := xs.map fun v => match v with | some q => .num q | none => .nan

/-- `np.diff` of a plain array. -/
def npDiff (a : FArr) : FArr := List.zipWith Fl.sub (tail1 a) (init1 a)

def Fl.sumList : FArr → Fl
  | [] => .num 0
  | x :: xs => Fl.add x (Fl.sumList xs)

/-- `np.mean`: NaN for an empty array (numpy warns), NaN as soon as one element is. -/
def npMean (a : FArr) : Fl :=
  if a.length = 0 then .nan else (Fl.sumList a).divS (a.length : Nat)

/-- scalar * array -/
def npMulS (s : Fl) (a : FArr) : FArr := a.map (Fl.mul s)

/-- `a <= r` on a plain array -/
def npLeS (a : FArr) (r : Rat) : List Bool := a.map (·.leS r)

/-- `np.where(c)[0]`: the indices of the True entries, ascending. -/
def npWhere (c : List Bool) : List Nat := (List.range c.length).filter fun i => c.getD i false

/-- `flags[idx] = x` with an integer index array (all indices in range). -/
def setIdx (fl : List Flag) (idx : List Nat) (x : Flag) : List Flag := idx.foldl (fun f i => f.set i x) fl

/-! ### 2-D windows (`flat_line_test`) -/

/-- `rolling_window(a, w)` of `flat_line_test`:
    `np.ma.masked_invalid(np.lib.stride_tricks.as_strided(a, (n - w + 1, w + 1), …)[:-1, :])` — rows r = 0 … n-w-1, row r holding the
    w+1 RAW data values a[r], …, a[r+w] (the strided view is taken of the data buffer: the mask of `a` is dropped), NaN masked
    again.  No row when n ≤ w (the explicit `len(a) < window` branch returns a (0, w+1) array as well). -/
def rollingWindow (a : MArr) (w : Nat) : List MArr :=
  (List.range (a.length - w)).map fun r => maskedInvalid (((a.drop r).take (w + 1)).map fun c => ⟨c.d, false⟩)

/-- the unmasked numbers of a row -/
def rowVals (row : MArr) : List Rat :=
  row.filterMap fun c => if c.m then none else match c.d with | .num q => some q | .nan => none

def optCell (o : Option Rat) : Cell := match o with | some q => ⟨.num q, false⟩ | none => ⟨.nan, true⟩

/-- `np.min(window, 1)` / `np.max(window, 1)` of a 2-D masked array: per row over the unmasked values; a row without any is
    masked in the result (the datum under that mask is unspecified — modelled as NaN; it is never looked at: `np.ma.filled(…, False)`). -/
def rowMin (w : List MArr) : MArr := w.map fun row => optCell (lmin (rowVals row))
def rowMax (w : List MArr) : MArr := w.map fun row => optCell (lmax (rowVals row))

/-- `np.ma.filled(c, fill_value=False)` of a masked boolean array -/
def filledFalse (c : BArr) : List Bool := c.map fun x => !x.m && x.d

/-- `np.insert(c, 0, np.full((k,), False))` -/
def insertFalse (k : Nat) (c : List Bool) : List Bool := List.replicate k false ++ c

/-! ### masked / plain boolean algebra and calendar columns (`ClimatologyConfig.check`) -/

/-- a plain boolean array seen as a masked one (mask all False) -/
def plainB (c : List Bool) : BArr := c.map fun b => ⟨b, false⟩
/-- `a & b` (`np.bitwise_and` as a plain ufunc: raw data everywhere, masks united) -/
def andB (a b : BArr) : BArr := List.zipWith (fun x y => ⟨x.d && y.d, x.m || y.m⟩) a b
/-- `~a` (`np.invert`: raw data, same mask) -/
def notB (a : BArr) : BArr := a.map fun x => ⟨!x.d, x.m⟩
/-- `~mask` of a plain boolean array -/
def notP (c : List Bool) : List Bool := c.map (!·)
/-- `np.ma.array(data=d, mask=m)` of two plain boolean arrays -/
def zipMask (d m : List Bool) : BArr := List.zipWith (fun x y => ⟨x, y⟩) d m
/-- `np.isnan(a.data)` -/
def isnanData (a : MArr) : List Bool := a.map (·.d.isNan)
/-- `not zinp.count() or isnan(zinp.any())`: there is no unmasked element (`count()` is 0; `any()` of an all-masked or empty
    array is `np.ma.masked`) -/
def noneUnmasked (a : MArr) : Bool := (a.filter (!·.m)).length == 0 || a.all (·.m)
/-- `t >= lo`, `t <= hi` for a time / period column (plain arrays) -/
def geR (t : List Rat) (r : Rat) : List Bool := t.map fun x => decide (r ≤ x)
def leR (t : List Rat) (r : Rat) : List Bool := t.map fun x => decide (x ≤ r)
/-- the time column in the member's unit: the instants themselves (no period), `tinp.isocalendar().week` (week periods) or
    `getattr(tinp, period)` — the calendar is a parameter, as in the pointwise model (`Model/Calendar.periodOf` when run) -/
def asInstants (t : List Int) : List Rat := t.map fun x => ((x : Int) : Rat)
def isoWeekOf (periodOf : Period → Int → Int) (t : List Int) : List Rat := t.map fun x => ((periodOf .week x : Int) : Rat)
def attrOf (periodOf : Period → Int → Int) (p : Period) (t : List Int) : List Rat := t.map fun x => ((periodOf p x : Int) : Rat)
/-- `np.ma.empty(n, dtype="uint8")` (content unspecified until `.fill`) and `.fill(x)` -/
def emptyFlags (n : Nat) : List Flag := List.replicate n .good
def fillFlags (a : List Flag) (x : Flag) : List Flag := a.map fun _ => x

/-! ### spread statistics (`attenuated_signal_test`): pandas' time-based rolling window and the two whole-series functions -/

/-- the function applied to every window: `lambda x: x.std()` or `w.apply(np.ptp, raw=True[, engine="numba"])` -/
inductive WinFunc where | std | ptp
  deriving DecidableEq, Repr, Inhabited
/-- the function applied to the whole flattened series: `np.std` or `np.ptp` -/
inductive CheckFunc where | std | ptp
  deriving DecidableEq, Repr, Inhabited

def WinFunc.ct : WinFunc → CheckType | .std => .std | .ptp => .range
def CheckFunc.ct : CheckFunc → CheckType | .std => .std | .ptp => .range

/-- what `pd.Series(inp.flatten(), …)` / a numpy reduction sees of a masked float array: masked or NaN cells are missing -/
def seriesOf (a : MArr) : List V := a.map fun c => if c.m then none else match c.d with | .num q => some q | .nan => none

/-- `window_func(pd.Series(inp, index=tinp).rolling(f"{test_period}s", min_periods=min_periods))`: one statistic per row over the
    trailing window `(t - P, t]`; pandas' default `min_periods` for a time window is 1 and a window always needs one observation
    (`Model/Tests.windowStat` — the pandas behaviour itself is modelled there and tied by the correspondence run of C12). -/
def rollingApply (wf : WinFunc) (minPeriods : Option Nat) (inp : MArr) (tinp : List Int) (period : Rat) : List Stat :=
  (List.range inp.length).map fun i => windowStat wf.ct (max (minPeriods.getD 1) 1) (seriesOf inp) tinp period i

/-- `check_func(series)` for the whole masked series -/
def wholeApply (cf : CheckFunc) (inp : MArr) : Stat := wholeStat cf.ct (seriesOf inp)

/-- `(min_period / time_interval).astype(int)` -/
def ratioFloor (mp : Rat) (D : Int) : Nat := ((mp / ((D : Int) : Rat)).floor).toNat

/-- `check_val >= θ`, `check_val < θ`, `np.isnan(check_val)` on an array of statistics -/
def statGe (c : List Stat) (θ : Rat) : List Bool := c.map (·.ge θ)
def statLt (c : List Stat) (θ : Rat) : List Bool := c.map (·.lt θ)
def statIsNan (c : List Stat) : List Bool := c.map (·.isUndef)

/-! ## array-level transcriptions -/

/-- `gross_range_test` after the argument checks (spans sorted; `u ⊆ f` verified). -/
def grossBody (f : Rat × Rat) (u : Option (Rat × Rat)) (inp : MArr) : List Flag :=
  let flag_arr := ones inp.length
  let flag_arr := setWhere flag_arr (maskOf inp) .missing
  let flag_arr := match u with
    | some u => setWhereB flag_arr (bor (ltS inp u.1) (gtS inp u.2)) .suspect
    | none => flag_arr
  setWhereB flag_arr (bor (ltS inp f.1) (gtS inp f.2)) .fail

def grossArr (fail : SeqArg) (suspect : Option SeqArg) (inp : List V) : Res := do
  fixedLength fail 2
  match fail.vals with
  | [a, b] =>
    let f := sort2 a b
    match suspect with
    | none => pure (grossBody f none (ofInput inp))
    | some s =>
      fixedLength s 2
      match s.vals with
      | [c, d] =>
        let u := sort2 c d
        if u.1 < f.1 || f.2 < u.2 then throw .value
        else pure (grossBody f (some u) (ofInput inp))
      | _ => throw .value
  | _ => throw .value

/-- `np.diff(tinp).astype("timedelta64[s]").astype(float)` on whole-second axes. -/
def dtSeconds (ts : List Int) : List Rat := List.zipWith (fun b a => ((b - a : Int) : Rat)) (tail1 ts) (init1 ts)

/-- `np.diff(inp) / dt` — a masked array divided elementwise by a plain array of non-zero
    numbers — followed by `np.abs`. -/
def rocBody (thr : Rat) (inp : MArr) (ts : List Int) : List Flag :=
  let flag_arr := ones inp.length
  let roc := zeros inp.length
  let roc := setTail roc (uf1 Fl.abs (maDivArr (maDiff inp) (dtSeconds ts)))
  let flag_arr := setWhereB flag_arr (gtS roc thr) .suspect
  setWhere flag_arr (maskOf inp) .missing

def rocArr (inp : List V) (ts : List Int) (thr : Rat) : Res :=
  if inp.length != ts.length then throw .value
  else pure (rocBody thr (ofInput inp) ts)

/-- `spike_test`, method "average". -/
def spikeDiffAverage (inp : MArr) : MArr :=
  let ref := zeros inp.length
  let ref := setInner ref (maDivS (maBin Fl.add (init2 inp) (tail2 inp)) 2)
  let ref := maskedInvalid ref
  uf1 Fl.abs (maBin Fl.sub inp ref)

/-- `spike_test`, method "differential". -/
def spikeDiffDifferential (inp : MArr) : MArr :=
  let ref := maDiff inp
  let diff := zeros inp.length
  let inner := uf2 Fl.min (uf1 Fl.abs (init1 ref)) (uf1 Fl.abs (tail1 ref))
  let diff := setInner diff inner
  -- diff[1:-1][ref[:-1] * ref[1:] >= 0] = 0   (a write through a view)
  let cond := geS (maBin Fl.mul (init1 ref) (tail1 ref)) 0
  setInner diff (setZeroWhereB (tail1 (init1 diff)) cond)

/-- `if threshold is not None: flag_arr[diff > threshold] = x`. -/
def applyThr (o : Option Rat) (fl : List Flag) (diff : MArr) (x : Flag) : List Flag :=
  match o with
  | some s => setWhereB fl (gtS diff s) x
  | none => fl

def spikeFlags (sus fail : Option Rat) (diff : MArr) : List Flag :=
  let flag_arr := ones diff.length
  let flag_arr := applyThr sus flag_arr diff .suspect
  let flag_arr := applyThr fail flag_arr diff .fail
  let flag_arr := setFirst flag_arr .unknown
  let flag_arr := setLast flag_arr .unknown
  setWhere flag_arr (maskOf diff) .missing

def spikeArr (method : String) (sus fail : Option Rat) (inp : List V) : Res :=
  if method = "average" then pure (spikeFlags sus fail (spikeDiffAverage (ofInput inp)))
  else if method = "differential" then pure (spikeFlags sus fail (spikeDiffDifferential (ofInput inp)))
  else throw .value

end IoosQc.Np
