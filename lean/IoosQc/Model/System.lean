/-
  IoosQc.Model.System — the whole pipeline as one executable function:

      table  ×  configuration (contexts → stream → tests with their parameters)
        ──Config.contexts──▶  calls grouped by equal context (first-occurrence order)
        ──Stream.run──────▶   per context: the window's row mask, the subset rows, one yielded
                              ContextResult per call whose stream the table has; `Call.run`
                              binds the subset rows to the test's signature and runs the *real
                              test model* (`TestCall.run`); a test that cannot be bound or raises
                              contributes no result
        ──collect_results─▶   per (stream, module.test): every context's flags scattered back to
                              the input rows, context after context (list form: masked where no
                              context covered the row; dict form: UNKNOWN there)

  This composes the pieces that C05 (window rows), C06 (collection), C07 (contexts), C18 (tests
  that cannot run) are stated about with the models of the eleven QC tests, so that the
  correspondence run can compare a *complete* real run (Config → stream front end →
  collect_results) with one model value.  Theorems: `Theorems/Sys.lean`.

  Code read: `config.Config.contexts`, `streams.{Pandas,Numpy,Netcdf,Xarray}Stream.run`,
  `config.Call.run`, `results.collect_results_list / _dict`.
-/
import IoosQc.Model.Tests
import IoosQc.Model.Streams
import IoosQc.Model.Results

namespace IoosQc

/-- The logical table every front end is built from: a time column (whole seconds), optional
    depth / position columns, named data columns. -/
structure Table where
  t : List Int
  z : Option (List V)
  lat : Option (List V)
  lon : Option (List V)
  cols : List (String × List V)
  deriving Repr, Inhabited

/-- What a stream hands to `Call.run` for one call of one context: the subset rows. -/
structure Rows where
  inp : List V
  t : List Int
  z : Option (List V)
  lat : Option (List V)
  lon : Option (List V)
  deriving Repr, Inhabited, DecidableEq

def Table.rows (tab : Table) (col : List V) (mask : List Bool) : Rows :=
  { inp := selectRows mask col, t := selectRows mask tab.t, z := tab.z.map (selectRows mask),
    lat := tab.lat.map (selectRows mask), lon := tab.lon.map (selectRows mask) }

/-- A configured test: the parameters only (what the configuration says).  `hops` of the two
    position tests are the geodesic distances between consecutive *window* rows, an input the
    harness computes (DESIGN §2.2).  `raiser` is a callee that raises on every input. -/
inductive TestSpec where
  | gross (fail : SeqArg) (suspect : Option SeqArg)
  | valid (lo hi : V) (startIncl endIncl : Bool)
  | location (bbox : SeqArg) (rangeMax : Option Rat) (hops : List V)
  | climatology (ms : List Member)
  | spike (method : String) (sus fail : Option Rat)
  | roc (thr : Rat)
  | flatLine (sus fail tol : Rat)
  | attenuated (checkType : String) (sus fail : Rat) (period : Option Rat) (minObs : Option Nat)
      (minPeriod : Option Rat)
  | density (sus fail : Option Rat)
  | pressure
  | speed (sus fail : Rat) (hops : List V)
  | raiser
  deriving Repr, Inhabited, DecidableEq

/-- `Call.run`'s binding of the stream's keyword arguments to the test's signature: the call the
    test function finally receives, or `none` when a required argument is not supplied by the
    stream (the call raises TypeError, which `Call.run` swallows) or the callee raises anyway. -/
def TestSpec.bind : TestSpec → Rows → Option TestCall
  | .gross f s, r => some (.gross f s r.inp)
  | .valid lo hi si ei, r => some (.valid lo hi si ei r.inp)
  | .location b rm h, r =>
    (match r.lon, r.lat with
     | some lon, some lat => some (.location lon lat b rm h)
     | _, _ => none)
  | .climatology ms, r =>
    (match r.z with
     | some z => some (.climatology ms r.inp r.t z)
     | none => none)
  | .spike m s f, r => some (.spike m s f r.inp)
  | .roc thr, r => some (.roc r.inp r.t thr)
  | .flatLine s f tol, r => some (.flatLine r.inp r.t s f tol)
  | .attenuated ct s f p mo mp, r => some (.attenuated ct r.inp r.t s f p mo mp)
  | .density s f, r =>
    (match r.z with
     | some z => some (.density r.inp z s f)
     | none => none)
  | .pressure, r => some (.pressure r.inp)
  | .speed s f h, r =>
    (match r.lon, r.lat with
     | some lon, some lat => some (.speed lon lat r.t s f h)
     | _, _ => none)
  | .raiser, _ => none

/-- One configured (stream id, module.test, parameters). -/
structure SysEntry where
  stream : String
  key : String
  spec : TestSpec
  deriving Repr, Inhabited, DecidableEq

/-- One context of the configuration. -/
structure SysCtx where
  window : Window
  entries : List SysEntry
  deriving Repr, Inhabited, DecidableEq

/-- `Config.contexts`: the calls grouped by equal context; a context keeps the position of its
    first mention, later mentions append their calls to it. -/
def groupStep (acc : List SysCtx) (c : SysCtx) : List SysCtx :=
  if acc.any (fun a => a.window = c.window) then
    acc.map fun a => if a.window = c.window then { a with entries := a.entries ++ c.entries } else a
  else acc ++ [c]

def groupCtxs (cs : List SysCtx) : List SysCtx := cs.foldl groupStep []

/-- What one call contributes: the flags of the subset rows, or nothing. -/
def runEntry (periodOf : Period → Int → Int) (tab : Table) (mask : List Bool) (col : List V)
    (e : SysEntry) : Option (List Flag) :=
  match e.spec.bind (tab.rows col mask) with
  | none => none
  | some call =>
    (match call.run periodOf with
     | .ok fl => some fl
     | .error _ => none)

/-- One yielded ContextResult, reduced to what collection uses. -/
structure Yield where
  stream : String
  key : String
  mask : List Bool
  flags : Option (List Flag)
  deriving Repr, Inhabited, DecidableEq

/-- One context through a stream: a ContextResult per call whose stream id the table has. -/
def runCtx (periodOf : Period → Int → Int) (front : Window → List Int → List Bool) (tab : Table)
    (c : SysCtx) : List Yield :=
  let mask := front c.window tab.t
  c.entries.filterMap fun e =>
    match tab.cols.lookup e.stream with
    | none => none
    | some col => some ⟨e.stream, e.key, mask, runEntry periodOf tab mask col e⟩

/-- `Stream.run(Config)` for a front end whose window mechanism is `front`. -/
def runStream (periodOf : Period → Int → Int) (front : Window → List Int → List Bool) (tab : Table)
    (cs : List SysCtx) : List Yield :=
  (groupCtxs cs).flatMap (runCtx periodOf front tab)

def Yield.piece? (y : Yield) : Option Piece :=
  y.flags.map fun fl => ⟨y.mask, fl.map fun f => (f.code : Int)⟩

/-- The pieces `collect_results` meets for one (stream, module.test), in yield order. -/
def sysPieces (ys : List Yield) (stream key : String) : List Piece :=
  ys.filterMap fun y => if y.stream = stream ∧ y.key = key then y.piece? else none

/-- List form: `none` when no call produced a result for the key (no collected result at all). -/
def sysCollectList (n : Nat) (ys : List Yield) (stream key : String) : Option (List (Option Int)) :=
  let ps := sysPieces ys stream key
  if ps.isEmpty then none else some (collectColumn n ps)

def sysCollectDict (n : Nat) (ys : List Yield) (stream key : String) : Option (List Int) :=
  let ps := sysPieces ys stream key
  if ps.isEmpty then none else some (collectDict n ps)

/-- Keys with a collected result, in order of first appearance. -/
def sysKeys (ys : List Yield) : List (String × String) :=
  ys.foldl (fun acc y =>
    if y.flags.isSome && !acc.contains (y.stream, y.key) then acc ++ [(y.stream, y.key)] else acc) []

/-- The complete run: every collected (stream, module.test) with its list-form column. -/
def systemRun (periodOf : Period → Int → Int) (tab : Table) (cs : List SysCtx) :
    List ((String × String) × List (Option Int)) :=
  let ys := runStream periodOf specMask tab cs
  (sysKeys ys).map fun k => (k, collectColumn tab.t.length (sysPieces ys k.1 k.2))

end IoosQc
