/-
  IoosQc.Model.Carrier — how the QC tests turn the objects they are given into a series of
  (possibly missing) numbers and an axis of instants.

  Data:  `np.ma.masked_invalid(np.ma.array(inp).astype(np.float64).filled(np.nan))` (after the
         repair of F-11; before it `np.array(inp)` dropped the mask and a masked cell holding a
         finite number was evaluated as that number).
  Times: `utils.mapdates` — tz-aware pandas objects are made naive (UTC wall time), pandas /
         numpy datetimes are cast to ns, anything else is read as seconds since the epoch.
-/
import IoosQc.Model.Basic

namespace IoosQc

/-- An element of a Python list / tuple / object array. -/
inductive PyCell where
  | num (x : Rat)
  | nan
  | pyNone
  | maskedConst          -- `np.ma.masked`
  deriving DecidableEq, Repr, Inhabited

def PyCell.toV : PyCell → V
  | .num x => some x
  | _ => none

inductive DataCarrier where
  | pySeq (cells : List PyCell)                    -- list, tuple, object ndarray, object Series
  | floatArr (cells : List V)                      -- real-dtype ndarray / Series / dask array (NaN = none)
  | maskedArr (data : List V) (mask : List Bool)   -- numpy masked array: raw data and mask
  deriving DecidableEq, Repr, Inhabited

/-- The logical series a carrier stands for. -/
def DataCarrier.denote : DataCarrier → List V
  | .pySeq cs => cs.map PyCell.toV
  | .floatArr xs => xs
  | .maskedArr d m => List.zipWith (fun x b => if b then none else x) d m

/-- What the tests compute from it. -/
def DataCarrier.normalize : DataCarrier → List V
  | .pySeq cs => cs.map PyCell.toV
  | .floatArr xs => xs
  | .maskedArr d m => List.zipWith (fun x b => if b then none else x) d m      -- filled(nan), then masked_invalid

/-- What the tests computed before the repair of F-11 (`np.array(inp)` returns the RAW data). -/
def DataCarrier.normalizeOld : DataCarrier → List V
  | .pySeq cs => cs.map PyCell.toV
  | .floatArr xs => xs
  | .maskedArr d _ => d

/-- The class of inputs of (fixed) finding F-11: a masked cell whose raw data is a number. -/
def DataCarrier.Bad : DataCarrier → Bool
  | .maskedArr d m => (List.zipWith (fun (x : V) b => b && x.isSome) d m).any id
  | _ => false

def DataCarrier.wf : DataCarrier → Bool
  | .maskedArr d m => d.length == m.length
  | _ => true

inductive TimeCarrier where
  | dt64 (unitNs : Nat) (ticks : List Int)     -- numpy datetime64[unit]
  | naive (ns : List Int)                      -- python datetimes, Timestamps, naive pandas objects
  | utcAware (ns : List Int)                   -- UTC-aware pandas Series / DatetimeIndex (ns since epoch, UTC)
  | epochSeconds (secs : List Int)             -- numbers: seconds since the Unix epoch
  deriving DecidableEq, Repr, Inhabited

/-- Instants in ns since the epoch. -/
def TimeCarrier.denote : TimeCarrier → List Int
  | .dt64 u ts => ts.map (· * u)
  | .naive ns => ns
  | .utcAware ns => ns
  | .epochSeconds s => s.map (· * 1000000000)

/-- `mapdates`, branch by branch. -/
def TimeCarrier.mapdates : TimeCarrier → List Int
  | .utcAware ns => ns                          -- tz_localize(None) keeps the UTC wall time
  | .naive ns => ns                             -- to_numpy().astype('datetime64[ns]') / np.array(dtype=...)
  | .dt64 u ts => ts.map (· * u)                -- astype('datetime64[ns]')
  | .epochSeconds s => s.map (· * 1000000000)   -- pd.to_datetime(unit='s')

end IoosQc
