/-
  IoosQc.Model.Basic — flags, values, errors and the `overrides` combinator.

  Mathlib-free and executable: this file is linked into the `driver` executable that the
  Python harness talks to.  Everything here is part of the *model* (a hand-written reading of
  /repo/ioos_qc), tied to the code by the correspondence run, see DESIGN.md §2.
-/
namespace IoosQc

/-- The five QARTOD flags (`ioos_qc.qartod.QartodFlags`). -/
inductive Flag where
  | good | unknown | suspect | fail | missing
  deriving DecidableEq, Repr, Inhabited

/-- Numeric code of a flag, as stored in the result arrays. -/
def Flag.code : Flag → Nat
  | .good => 1 | .unknown => 2 | .suspect => 3 | .fail => 4 | .missing => 9

def Flag.ofCode? : Int → Option Flag
  | 1 => some .good | 2 => some .unknown | 3 => some .suspect | 4 => some .fail
  | 9 => some .missing | _ => none

/-- Severity used by C16: GOOD < SUSPECT < FAIL; UNKNOWN / MISSING are outside the order. -/
def Flag.sev : Flag → Option Nat
  | .good => some 0 | .suspect => some 1 | .fail => some 2 | _ => none

/-- Aggregation precedence (C04): MISSING < UNKNOWN < GOOD < SUSPECT < FAIL. -/
def Flag.rank : Flag → Nat
  | .missing => 0 | .unknown => 1 | .good => 2 | .suspect => 3 | .fail => 4

/-- A (possibly missing) observation: `none` is NaN / None / a masked element. -/
abbrev V := Option Rat

/-- Python exception classes, collapsed. -/
inductive Err where
  | value | type | assertion | index | attribute | other
  deriving DecidableEq, Repr, Inhabited

def Err.name : Err → String
  | .value => "ValueError" | .type => "TypeError" | .assertion => "AssertionError"
  | .index => "IndexError" | .attribute => "AttributeError" | .other => "Exception"

abbrev Res := Except Err (List Flag)

/-- Replay of a sequence of numpy assignments `flag_arr[cond] = X` at one position:
    start from `init`, every rule whose condition holds overwrites; the last true rule wins. -/
def overrides (init : Flag) (rules : List (Bool × Flag)) : Flag :=
  rules.foldl (fun acc r => if r.1 then r.2 else acc) init

def rabs (x : Rat) : Rat := if x < 0 then -x else x

def rmin (a b : Rat) : Rat := if a ≤ b then a else b
def rmax (a b : Rat) : Rat := if a ≤ b then b else a

/-- sign as numpy's `np.sign` on a real. -/
def rsign (x : Rat) : Rat := if x < 0 then -1 else if 0 < x then 1 else 0

/-- Element `i` of a series, missing beyond the end. -/
def getV (xs : List V) (i : Nat) : V := xs.getD i none

/-- `a > b` with NaN semantics: false when `a` is missing. -/
def vgt (a : V) (b : Rat) : Bool := match a with | some x => decide (b < x) | none => false
/-- `a < b` with NaN semantics. -/
def vlt (a : V) (b : Rat) : Bool := match a with | some x => decide (x < b) | none => false
def vge (a : V) (b : Rat) : Bool := match a with | some x => decide (b ≤ x) | none => false
def vle (a : V) (b : Rat) : Bool := match a with | some x => decide (x ≤ b) | none => false

/-- `sorted(span)` for a 2-sequence. -/
def sort2 (a b : Rat) : Rat × Rat := if a ≤ b then (a, b) else (b, a)

/-- Arguments that Python checks with `isfixedlength(x, n)`: a list/tuple (`isSeq`) of numbers. -/
structure SeqArg where
  isSeq : Bool
  vals  : List Rat
  deriving Repr, DecidableEq, Inhabited

/-- `isfixedlength(lst, n)`: TypeError unless list/tuple, ValueError unless of length n. -/
def fixedLength (a : SeqArg) (n : Nat) : Except Err Unit :=
  if !a.isSeq then .error .type
  else if a.vals.length != n then .error .value
  else .ok ()

end IoosQc
