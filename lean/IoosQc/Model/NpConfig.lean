/-
  IoosQc.Model.NpConfig — the stream / package / test loops of `ContextConfig.__init__` in the form
  `harness/translate.py` regenerates from /repo's source (see `Model/NpSrc.lean` for the conventions):
  three nested `for` loops with two `continue`s — `try: import_module(…) except ImportError: continue`
  (`knownMod`) and `if not hasattr(testpackage, testname): continue` (`known`).  The parsing of region
  and window in the first half of `__init__` (shapely, the TimeWindow tuple) is not translated: the
  context's window and region are parameters.  `Theorems/NpSrc10.lean`: equal to `contextCalls`
  (Model/Config), the model of C07's layout theorems and `C07_unknown_skipped`.
-/
import IoosQc.Model.Config

namespace IoosQc.NpSrc

/-- `self.config["streams"].items()` (a context without streams is outside the well-formed configurations) -/
def streamsOf (config : J) : List (String × J) := ((config.get? "streams").getD (.obj [])).items

-- BEGIN GENERATED (harness/translate.py)
def ContextConfig_calls (knownMod : String → Bool) (known : String → String → Bool) (config : J) (window : J) (region : J) : List CallSpec := Id.run do
  let mut calls : List CallSpec := []
  for (stream_id, sc) in streamsOf config do
    for (package, modules) in sc.items do
      if !(knownMod package) then
        continue
      for (testname, kwargs) in modules.items do
        let kwargs := orEmpty kwargs
        if !(known package testname) then
          continue
        calls := calls ++ [⟨stream_id, package, testname, kwargs, window, region⟩]
  return calls
-- END GENERATED

end IoosQc.NpSrc
