/-
  IoosQc.Model.CallRun — `config.Call.run`: the keyword arguments a test function finally
  receives, and what a call that cannot run contributes.

  Code:  testkwargs = {**self.kwargs, **deepcopy(passedkwargs)}
         testkwargs = {k: v for k, v in testkwargs.items() if k in <POSITIONAL_OR_KEYWORD names of func>}
         try: results.append(CallResult(..., results=func(**testkwargs)))   except Exception: log
         return results
  Values are opaque identifiers interned by the harness (`Nat`).
-/
import IoosQc.Model.Basic

namespace IoosQc

abbrev KwArgs := List (String × Nat)

/-- Python's `{**a, **b}` on insertion-ordered dicts: the keys of `a` in order (value from `b`
    when `b` has the key), then the keys only `b` has, in `b`'s order. -/
def dictMerge (a b : KwArgs) : KwArgs :=
  a.map (fun kv => (kv.1, (b.lookup kv.1).getD kv.2)) ++ b.filter (fun kv => (a.lookup kv.1).isNone)

/-- The keyword arguments handed to the test function. -/
def callKwargs (configured passed : KwArgs) (sig : List String) : KwArgs :=
  (dictMerge configured passed).filter (fun kv => sig.contains kv.1)

/-- `Call.run`: a list with the function's result, or the empty list when the function raised. -/
def callRun {β} (f : KwArgs → Except Err β) (configured passed : KwArgs) (sig : List String) : List β :=
  match f (callKwargs configured passed sig) with
  | .ok r => [r]
  | .error _ => []

end IoosQc
