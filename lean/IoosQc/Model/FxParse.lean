/-
  IoosQc.Model.FxParse — the GRAMMAR of `config_creator.fx_parser` (pyparsing, derived from the
  classic `fourFn.py`):

      expr   := term   (('+'|'-') term)*            -- left associative (ZeroOrMore loop)
      term   := factor (('*'|'/') factor)*          -- left associative
      factor := atom                                 -- ('^' is outside the property's grammar)
      atom   := ('+'|'-')* ( number | ident | '(' expr ')' )   -- only '-' pushes "unary -"
      number := [0-9]+ ('.' [0-9]*)? ([eE] [+-]? [0-9]+)?
      ident  := min | max | mean | std

  `IoosQc.Model.Fx` models what the parse actions PUSH (`Expr.compile`) and how the stack is
  evaluated; this file models which TREE the grammar builds from a token string: precedence,
  left associativity and unary minus.

  All parser functions are total by a `fuel` argument that decreases at every call (mutual
  structural recursion, so the kernel can evaluate them).  A successful parse of `n` tokens needs
  at most `3 * n` fuel (one `expr → term → atom` descent per token, one loop iteration per two
  tokens); `parseAll` supplies `5 * n + 5`.

  Mathlib/Batteries-free: linked into the `driver` executable.
-/
import IoosQc.Model.Fx

namespace IoosQc

/-- Lexical tokens of the limit-expression grammar. -/
inductive PTok where
  | num (q : Rat)
  | stat (s : StatName)
  | plus | minus | times | slash | lparen | rparen
  deriving DecidableEq, Repr

/-- `addop`: the operators of the `expr` loop. -/
def PTok.addOp? : PTok → Option BinOp
  | .plus => some .add
  | .minus => some .sub
  | _ => none

/-- `multop`: the operators of the `term` loop. -/
def PTok.mulOp? : PTok → Option BinOp
  | .times => some .mul
  | .slash => some .div
  | _ => none

/-! ### Recursive-descent parser -/

mutual

/-- `atom := ('+'|'-')* ( number | ident | '(' expr ')' )`.  Each leading `-` wraps the operand
    in one `neg` (pyparsing pushes one `"unary -"` per minus sign); a leading `+` is accepted
    and ignored. -/
def parseAtom : Nat → List PTok → Option (Expr × List PTok)
  | 0, _ => none
  | f + 1, ts =>
    match ts with
    | .num q :: r => some (.num q, r)
    | .stat s :: r => some (.stat s, r)
    | .plus :: r => parseAtom f r
    | .minus :: r =>
      (match parseAtom f r with
       | some (e, r') => some (.neg e, r')
       | none => none)
    | .lparen :: r =>
      (match parseExpr f r with
       | some (e, .rparen :: r') => some (e, r')
       | _ => none)
    | _ => none

/-- `term := atom (multop atom)*`. -/
def parseTerm : Nat → List PTok → Option (Expr × List PTok)
  | 0, _ => none
  | f + 1, ts =>
    match parseAtom f ts with
    | some (a, r) => termLoop f a r
    | none => none

/-- The `(multop atom)*` loop with the tree built so far (left associative).  When the operand
    after an operator does not parse, the loop stops BEFORE the operator (ZeroOrMore
    backtracks). -/
def termLoop : Nat → Expr → List PTok → Option (Expr × List PTok)
  | 0, _, _ => none
  | f + 1, acc, ts =>
    match ts with
    | [] => some (acc, [])
    | t :: r =>
      (match t.mulOp? with
       | none => some (acc, ts)
       | some op =>
         (match parseAtom f r with
          | some (b, r') => termLoop f (.bin op acc b) r'
          | none => some (acc, ts)))

/-- `expr := term (addop term)*`. -/
def parseExpr : Nat → List PTok → Option (Expr × List PTok)
  | 0, _ => none
  | f + 1, ts =>
    match parseTerm f ts with
    | some (a, r) => exprLoop f a r
    | none => none

/-- The `(addop term)*` loop (left associative, backtracking like `termLoop`). -/
def exprLoop : Nat → Expr → List PTok → Option (Expr × List PTok)
  | 0, _, _ => none
  | f + 1, acc, ts =>
    match ts with
    | [] => some (acc, [])
    | t :: r =>
      (match t.addOp? with
       | none => some (acc, ts)
       | some op =>
         (match parseTerm f r with
          | some (b, r') => exprLoop f (.bin op acc b) r'
          | none => some (acc, ts)))

end

/-- Fuel supplied by `parseAll` (any value `≥ 3 * n + 3` is exact). -/
def parseFuel (ts : List PTok) : Nat := 5 * ts.length + 5

/-- `expr.parseString(s, parseAll=True)`: succeeds only if every token is consumed. -/
def parseAll (ts : List PTok) : Option Expr :=
  match parseExpr (parseFuel ts) ts with
  | some (e, []) => some e
  | _ => none

/-! ### Lexer -/

/-- Longest prefix of decimal digits, and what follows. -/
def spanDigits : List Char → List Char × List Char
  | [] => ([], [])
  | c :: cs =>
    if isDigit c then
      let (d, r) := spanDigits cs
      (c :: d, r)
    else ([], c :: cs)

/-- Value of a digit string (most significant first), continuing from `acc`. -/
def natOfDigits (acc : Nat) : List Char → Nat
  | [] => acc
  | c :: cs => natOfDigits (acc * 10 + (c.toNat - '0'.toNat)) cs

def isIdentStart (c : Char) : Bool := c.isAlpha
def isIdentChar (c : Char) : Bool := c.isAlphanum || c == '_' || c == '$'

def spanIdent : List Char → List Char × List Char
  | [] => ([], [])
  | c :: cs =>
    if isIdentChar c then
      let (d, r) := spanIdent cs
      (c :: d, r)
    else ([], c :: cs)

def statOfName (w : List Char) : Option StatName :=
  if w == "min".toList then some .min
  else if w == "max".toList then some .max
  else if w == "mean".toList then some .mean
  else if w == "std".toList then some .std
  else none

/-- Optional exponent `[eE] [+-]? [0-9]+` at the head of the input: the factor to multiply by
    and the remaining input; when the pattern does not match completely nothing is consumed
    (`1e` is the number `1` followed by the identifier `e`). -/
def lexExponent (cs : List Char) : Rat × List Char :=
  match cs with
  | e :: r =>
    if e == 'e' || e == 'E' then
      let (negative, r1) :=
        match r with
        | '+' :: r1 => (false, r1)
        | '-' :: r1 => (true, r1)
        | _ => (false, r)
      match spanDigits r1 with
      | ([], _) => (1, cs)
      | (ds, r2) =>
        let p : Rat := ((10 ^ natOfDigits 0 ds : Nat) : Rat)
        (if negative then 1 / p else p, r2)
    else (1, cs)
  | [] => (1, cs)

/-- `number := [0-9]+ ('.' [0-9]*)? ([eE] [+-]? [0-9]+)?` at the head of the input (the caller
    has checked that the first character is a digit): exact rational value and remaining input. -/
def lexNumber (cs : List Char) : Rat × List Char :=
  let (ip, r1) := spanDigits cs
  let (fp, r3) :=
    match r1 with
    | '.' :: r2 => spanDigits r2
    | _ => ([], r1)
  let mant : Rat := (natOfDigits 0 (ip ++ fp) : Rat) / ((10 ^ fp.length : Nat) : Rat)
  let (scale, r4) := lexExponent r3
  (mant * scale, r4)

/-- Lexer loop; `fuel` bounds the number of tokens (every step consumes a character). -/
def lexAux : Nat → List Char → Option (List PTok)
  | 0, _ => none
  | _ + 1, [] => some []
  | f + 1, c :: cs =>
    if c == ' ' || c == '\t' then lexAux f cs
    else if c == '+' then (lexAux f cs).map (PTok.plus :: ·)
    else if c == '-' then (lexAux f cs).map (PTok.minus :: ·)
    else if c == '*' then (lexAux f cs).map (PTok.times :: ·)
    else if c == '/' then (lexAux f cs).map (PTok.slash :: ·)
    else if c == '(' then (lexAux f cs).map (PTok.lparen :: ·)
    else if c == ')' then (lexAux f cs).map (PTok.rparen :: ·)
    else if isDigit c then
      let (q, r) := lexNumber (c :: cs)
      (lexAux f r).map (PTok.num q :: ·)
    else if isIdentStart c then
      let (w, r) := spanIdent (c :: cs)
      match statOfName w with
      | some s => (lexAux f r).map (PTok.stat s :: ·)
      | none => none                               -- any other identifier
    else none                                      -- any other character

/-- Characters to tokens; `none` on an unknown character or identifier. -/
def lex (cs : List Char) : Option (List PTok) := lexAux (cs.length + 1) cs

/-- Lex, then parse the whole input. -/
def parseString (s : String) : Option Expr := (lex s.toList).bind parseAll

/-! ### Printers (inverse direction) -/

/-- Binding strength of a binary operator: `0` for the `expr` loop, `1` for the `term` loop
    (atoms are level `2`). -/
def BinOp.prec : BinOp → Nat
  | .add => 0 | .sub => 0 | .mul => 1 | .div => 1

def BinOp.tok : BinOp → PTok
  | .add => .plus | .sub => .minus | .mul => .times | .div => .slash

/-- A negative `num` has no number token (the lexer reads `-3` as `minus, num 3`, i.e.
    `neg (num 3)`): the printers are meant for trees whose literals are `≥ 0`. -/
def Expr.nonneg : Expr → Bool
  | .num q => decide (0 ≤ q)
  | .stat _ => true
  | .neg e => e.nonneg
  | .bin _ a b => a.nonneg && b.nonneg

/-- Print `e` in a position that requires binding strength at least `p`
    (`0` = expr, `1` = term, `2` = atom), with parentheses only where the grammar needs them:
    * a binary node is parenthesised iff its operator binds weaker than `p`;
    * the LEFT operand of an operator is printed at the operator's own level (the loops are
      left associative, so `a - b - c` is `(a - b) - c`), the RIGHT operand one level higher
      (`a - (b - c)`, `a / (b * c)` keep their parentheses);
    * the operand of `neg` is an atom: `- - x`, `- 3`, `- ( a * b )`; a `neg` itself is an atom
      and never needs parentheses (`2 - -3`, `-a * b` is `(neg a) * b`). -/
def Expr.toToksP : Nat → Expr → List PTok
  | _, .num q => [.num q]
  | _, .stat s => [.stat s]
  | _, .neg e => .minus :: Expr.toToksP 2 e
  | p, .bin op a b =>
    let body := Expr.toToksP op.prec a ++ op.tok :: Expr.toToksP (op.prec + 1) b
    if op.prec < p then .lparen :: body ++ [.rparen] else body

/-- Minimal-parentheses printer. -/
def Expr.toToks (e : Expr) : List PTok := e.toToksP 0

/-- Fully parenthesised printer: every binary node is `( a op b )`, every negation `- ( e )`. -/
def Expr.toToksFull : Expr → List PTok
  | .num q => [.num q]
  | .stat s => [.stat s]
  | .neg e => .minus :: .lparen :: e.toToksFull ++ [.rparen]
  | .bin op a b => .lparen :: a.toToksFull ++ op.tok :: b.toToksFull ++ [.rparen]

end IoosQc
