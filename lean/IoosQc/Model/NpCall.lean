/-
  IoosQc.Model.NpCall — `config.Call.run` in the form `harness/translate.py` regenerates from /repo's
  source (see `Model/NpSrc.lean` for the conventions; straight-line code: one `let` per statement,
  `try: … except Exception: <log>` as a match on the callee's outcome).  `valid_keywords` — the
  POSITIONAL_OR_KEYWORD parameter names `inspect.signature` reports — and the test function itself
  are parameters.  `Theorems/NpSrc9.lean`: equal to `callRun` (Model/CallRun), the model of C05's
  keyword theorems and of C18's "a call that raises yields nothing".
-/
import IoosQc.Model.CallRun

namespace IoosQc.NpSrc

-- BEGIN GENERATED (harness/translate.py)
def Call_run {β : Type} (self_kwargs : KwArgs) (passedkwargs : KwArgs) (valid_keywords : List String) (self_func : KwArgs → Except Err β) : List β :=
  let results : List β := []
  let testkwargs := passedkwargs
  let testkwargs := dictMerge self_kwargs testkwargs
  let testkwargs := testkwargs.filter fun kv => valid_keywords.contains kv.1
  match self_func testkwargs with
  | .ok r => results ++ [r]
  | .error _ => results
-- END GENERATED

end IoosQc.NpSrc
