/-
  IoosQc.Model.Calendar — proleptic Gregorian calendar fields of an instant given in whole
  seconds since 1970-01-01T00:00:00, as pandas' DatetimeIndex accessors report them.
  Executable only; no theorem depends on its internals (C08 is parametric in `periodOf`);
  its agreement with pandas is checked day by day by the correspondence run.
-/
import IoosQc.Model.Tests

namespace IoosQc

/-- (year, month, day) from days since 1970-01-01 (H. Hinnant's `civil_from_days`). -/
def civilFromDays (z0 : Int) : Int × Int × Int :=
  let z := z0 + 719468
  let era := z / 146097
  let doe := z - era * 146097
  let yoe := (doe - doe / 1460 + doe / 36524 - doe / 146096) / 365
  let y := yoe + era * 400
  let doy := doe - (365 * yoe + yoe / 4 - yoe / 100)
  let mp := (5 * doy + 2) / 153
  let d := doy - (153 * mp + 2) / 5 + 1
  let m := if mp < 10 then mp + 3 else mp - 9
  (if m ≤ 2 then y + 1 else y, m, d)

def daysFromCivil (y0 m d : Int) : Int :=
  let y := if m ≤ 2 then y0 - 1 else y0
  let era := y / 400
  let yoe := y - era * 400
  let mp := if m > 2 then m - 3 else m + 9
  let doy := (153 * mp + 2) / 5 + d - 1
  let doe := yoe * 365 + yoe / 4 - yoe / 100 + doy
  era * 146097 + doe - 719468

def isLeap (y : Int) : Bool := (y % 4 == 0 && y % 100 != 0) || y % 400 == 0

/-- Monday = 0 … Sunday = 6. -/
def weekdayOfDays (days : Int) : Int := (days + 3) % 7

/-- Number of ISO weeks of year `y`. -/
def isoWeeksInYear (y : Int) : Int :=
  let jan1 := weekdayOfDays (daysFromCivil y 1 1)
  if jan1 == 3 || (isLeap y && jan1 == 2) then 53 else 52

def isoWeek (days : Int) : Int :=
  let (y, _, _) := civilFromDays days
  let doy := days - daysFromCivil y 1 1 + 1
  let wd := weekdayOfDays days + 1
  let w := (doy - wd + 10) / 7
  if w < 1 then isoWeeksInYear (y - 1)
  else if w > isoWeeksInYear y then 1
  else w

def periodOf (p : Period) (t : Int) : Int :=
  let days := t / 86400
  let sod := t % 86400
  let (y, m, d) := civilFromDays days
  match p with
  | .year => y
  | .month => m
  | .day => d
  | .hour => sod / 3600
  | .quarter => (m - 1) / 3 + 1
  | .dayofyear => days - daysFromCivil y 1 1 + 1
  | .dayofweek => weekdayOfDays days
  | .week => isoWeek days

end IoosQc
