/-
  IoosQc.Model.Fx — `config_creator.fx_parser` (postfix stack machine fed by pyparsing parse
  actions) and the token validator of `QcVariableConfig`.

  `exprStack` is a module-level list that is never cleared: every parse appends the postfix
  form of the expression (a failed parse leaves whatever its parse actions pushed before the
  failure); `eval_fx` evaluates a *copy* of the whole stack, popping from the end.
-/
import IoosQc.Model.Basic

namespace IoosQc

inductive StatName where | min | max | mean | std
  deriving DecidableEq, Repr, Inhabited

structure Stats where
  min : Rat
  max : Rat
  mean : Rat
  std : Rat
  deriving Repr, DecidableEq, Inhabited

def Stats.get (s : Stats) : StatName → Rat
  | .min => s.min | .max => s.max | .mean => s.mean | .std => s.std

inductive BinOp where | add | sub | mul | div
  deriving DecidableEq, Repr, Inhabited

/-- Limit expressions: numbers, the four statistics, + − × ÷, unary minus, parentheses. -/
inductive Expr where
  | num (q : Rat)
  | stat (s : StatName)
  | neg (e : Expr)
  | bin (op : BinOp) (a b : Expr)
  deriving Repr, DecidableEq, Inhabited

/-- Ordinary arithmetic value; `none` on division by zero (Python raises ZeroDivisionError). -/
def Expr.eval (st : Stats) : Expr → Option Rat
  | .num q => some q
  | .stat s => some (st.get s)
  | .neg e => (e.eval st).map (fun v => -v)
  | .bin op a b =>
    match a.eval st, b.eval st with
    | some x, some y =>
      (match op with
       | .add => some (x + y)
       | .sub => some (x - y)
       | .mul => some (x * y)
       | .div => if y = 0 then none else some (x / y))
    | _, _ => none

/-- Entries of `exprStack`. -/
inductive Tok where
  | num (q : Rat)
  | stat (s : StatName)
  | ident (name : String)      -- any other identifier: "invalid identifier" at evaluation
  | op (o : BinOp)
  | uminus                     -- "unary -"
  deriving Repr, DecidableEq, Inhabited

/-- What the parse actions push for an expression (postfix; operands left to right). -/
def Expr.compile : Expr → List Tok
  | .num q => [.num q]
  | .stat s => [.stat s]
  | .neg e => e.compile ++ [.uminus]
  | .bin op a b => a.compile ++ b.compile ++ [.op op]

/-- `evaluate_stack(s, stats)`: pops from the END of the list.  The stack is kept reversed
    here (head = top) so that popping is pattern matching; `fuel` bounds the recursion. -/
def evalRev (st : Stats) : Nat → List Tok → Option (Rat × List Tok)
  | 0, _ => none
  | _ + 1, [] => none                                  -- pop from empty list: IndexError
  | fuel + 1, t :: rest =>
    match t with
    | .num q => some (q, rest)
    | .stat s => some (st.get s, rest)
    | .ident _ => none                                 -- Exception("invalid identifier")
    | .uminus =>
      (match evalRev st fuel rest with
       | some (v, r) => some (-v, r)
       | none => none)
    | .op o =>
      (match evalRev st fuel rest with                 -- op2 first
       | some (y, r1) =>
         (match evalRev st fuel r1 with                -- then op1
          | some (x, r2) =>
            (match o with
             | .add => some (x + y, r2)
             | .sub => some (x - y, r2)
             | .mul => some (x * y, r2)
             | .div => if y = 0 then none else some (x / y, r2))
          | none => none)
       | none => none)

/-- `eval_fx` after the parse succeeded: the persistent stack `pre` (anything earlier parses,
    successful or failed, left behind) followed by this expression's postfix form. -/
def evalFx (st : Stats) (pre : List Tok) (e : Expr) : Option Rat :=
  let stack := pre ++ e.compile
  (evalRev st (stack.length + 1) stack.reverse).map (·.1)

/-! ### QcVariableConfig._validate_fx -/

def isDigit (c : Char) : Bool := '0' ≤ c && c ≤ '9'

/-- digit ('_'? digit)*  — Python's digitpart. -/
def digitPart : List Char → Bool
  | [] => false
  | c :: cs =>
    isDigit c &&
    (let rec go : List Char → Bool
       | [] => true
       | '_' :: d :: r => isDigit d && go r
       | d :: r => isDigit d && go r
     go cs)

def splitOnFirst (p : Char → Bool) : List Char → List Char × Option (Char × List Char)
  | [] => ([], none)
  | c :: cs =>
    if p c then ([], some (c, cs))
    else
      let (a, b) := splitOnFirst p cs
      (c :: a, b)

/-- mantissa: digitpart ['.' [digitpart]] | '.' digitpart -/
def mantissa (cs : List Char) : Bool :=
  match splitOnFirst (· == '.') cs with
  | (a, none) => digitPart a
  | (a, some (_, b)) =>
    (digitPart a && (b.isEmpty || digitPart b)) || (a.isEmpty && digitPart b)

def stripSign : List Char → List Char
  | '+' :: r => r
  | '-' :: r => r
  | r => r

def lower (cs : List Char) : List Char := cs.map Char.toLower

/-- Does Python's `float(token)` succeed?  (ASCII tokens without surrounding whitespace.) -/
def floatLiteral (tok : List Char) : Bool :=
  let body := stripSign tok
  let lb := lower body
  if lb == "inf".toList || lb == "infinity".toList || lb == "nan".toList then true
  else
    match splitOnFirst (fun c => c == 'e' || c == 'E') body with
    | (m, none) => mantissa m
    | (m, some (_, ex)) => mantissa m && digitPart (stripSign ex)

def allowedWords : List (List Char) :=
  ["min", "max", "mean", "std", "+", "-", "*", "/", "(", ")"].map String.toList

def validToken (tok : List Char) : Bool := floatLiteral tok || allowedWords.contains tok

/-- `str.split(" ")`: split on every single space (consecutive spaces give empty pieces). -/
def splitSpaces : List Char → List (List Char)
  | [] => [[]]
  | c :: cs =>
    match splitSpaces cs with
    | [] => [[]]                                   -- unreachable
    | p :: ps => if c == ' ' then [] :: p :: ps else (c :: p) :: ps

/-- `_validate_fx`: the specification is split on single spaces; every piece must be a float
    literal, a statistic, an operator or a parenthesis. -/
def validFx (spec : String) : Bool := (splitSpaces spec.toList).all validToken

end IoosQc
