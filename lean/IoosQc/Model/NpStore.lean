/-
  IoosQc.Model.NpStore — `PandasStore.save` and `column_from_collected_result` in the form
  `harness/translate.py` regenerates from /repo's source (see `Model/NpSrc.lean` for the
  conventions; a loop whose body only re-binds the frame is rendered as a fold with one `let` per
  Python statement, a `continue` as "return the frame as it is"): the loop over the collected results
  with its two `continue`s, columns added to the frame only while absent.  `Theorems/NpSrc7.lean` proves it equal to `storeSave` (Model/Store),
  the model C19's theorems are about.
-/
import IoosQc.Model.Store

namespace IoosQc.NpSrc

/-- `self.axes`: the column names of the four axes (`t`, `z`, `y`, `x`). -/
structure Axes where
  t : String
  z : String
  y : String
  x : String
  deriving Repr, DecidableEq, Inhabited

/-- `df[name] = values` for a name not yet in the frame: a new last column. -/
def setCol (df : Frame) (name : String) (values : Nat) : Frame := df ++ [(name, values)]

/-- `f"{x}." if x else ""` -/
def dotted (x : String) : String := if x = "" then "" else x ++ "."

-- BEGIN GENERATED (harness/translate.py)
def column_from_collected_result (cr : StoreRes) : String :=
  let stream_label := dotted cr.stream
  let package_label := dotted cr.package
  let test_label := cr.test
  String.ofList (cfSafeName (stream_label ++ package_label ++ test_label).toList)

def save (collected_results : List StoreRes) (axes : Axes) (write_data : Bool) (write_axes : Bool) (include_ : Option (List String)) (exclude_ : Option (List String)) : Frame :=
  collected_results.foldl (fun df cr =>
    let df := match cr.tinp with
      | some tinp => if write_axes = true && !(df.has axes.t) then setCol df axes.t tinp else df
      | none => df
    let df := match cr.zinp with
      | some zinp => if write_axes = true && !(df.has axes.z) then setCol df axes.z zinp else df
      | none => df
    let df := match cr.lon with
      | some lon => if write_axes = true && !(df.has axes.x) then setCol df axes.x lon else df
      | none => df
    let df := match cr.lat with
      | some lat => if write_axes = true && !(df.has axes.y) then setCol df axes.y lat else df
      | none => df
    if (match include_ with
        | some include_ => !(include_.contains cr.fn) && !(include_.contains cr.stream) && !(include_.contains cr.test)
        | none => false) then df       -- continue
    else
    if (match exclude_ with
        | some exclude_ => exclude_.contains cr.fn || exclude_.contains cr.stream || exclude_.contains cr.test
        | none => false) then df       -- continue
    else
    let df := if write_data && !(df.has cr.stream) && cr.stream != "" then setCol df cr.stream cr.data else df
    let column_name := column_from_collected_result cr
    let df := if !(df.has column_name) then setCol df column_name cr.results else df
    df) []
-- END GENERATED

end IoosQc.NpSrc
