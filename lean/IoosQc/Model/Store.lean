/-
  IoosQc.Model.Store — `utils.cf_safe_name`, `stores.column_from_collected_result`,
  `PandasStore.save` (after the `exclude` repair) and `PandasStore.compute_aggregate`.
  Column contents are opaque identifiers interned by the harness.
-/
import IoosQc.Model.Aggregate

namespace IoosQc

def isSafeChar (c : Char) : Bool :=
  c == '_' || ('a' ≤ c && c ≤ 'z') || ('A' ≤ c && c ≤ 'Z') || ('0' ≤ c && c ≤ '9')

def isAsciiDigit (c : Char) : Bool := '0' ≤ c && c ≤ '9'

/-- `cf_safe_name`: prefix `v_` when the first character is a digit or underscore, then replace
    every character outside `[_a-zA-Z0-9]` by `_`. -/
def cfSafeName (s : List Char) : List Char :=
  let s' := match s with
    | c :: _ => if isAsciiDigit c || c == '_' then 'v' :: '_' :: s else s
    | [] => s
  s'.map fun c => if isSafeChar c then c else '_'

/-- One collected result as the store sees it. -/
structure StoreRes where
  stream : String
  package : String
  test : String
  fn : String                      -- identity of the test function
  results : Nat                    -- id of the flag column contents
  data : Nat
  tinp : Option Nat                -- none: the stream supplied no such axis (size-0 array)
  zinp : Option Nat
  lon : Option Nat
  lat : Option Nat
  deriving Repr, DecidableEq, Inhabited

/-- `column_from_collected_result`. -/
def rawName (r : StoreRes) : String :=
  (if r.stream = "" then "" else r.stream ++ ".") ++ (if r.package = "" then "" else r.package ++ ".") ++ r.test

def columnName (r : StoreRes) : String := String.ofList (cfSafeName (rawName r).toList)

def listed (l : Option (List String)) (r : StoreRes) : Bool :=
  match l with
  | none => false
  | some xs => xs.contains r.fn || xs.contains r.stream || xs.contains r.test

/-- Does the result pass the include / exclude filters? -/
def kept (inc exc : Option (List String)) (r : StoreRes) : Bool :=
  (inc.isNone || listed inc r) && !(listed exc r)

abbrev Frame := List (String × Nat)

def Frame.has (df : Frame) (name : String) : Bool := df.any (·.1 = name)

def addIfAbsent (df : Frame) (name : String) (v : Option Nat) : Frame :=
  match v with
  | some x => if df.has name then df else df ++ [(name, x)]
  | none => df

/-- One iteration of the loop of `PandasStore.save`. -/
def saveStep (writeData writeAxes : Bool) (inc exc : Option (List String)) (df : Frame) (r : StoreRes) : Frame :=
  let df := if writeAxes then
      addIfAbsent (addIfAbsent (addIfAbsent (addIfAbsent df "time" r.tinp) "z" r.zinp) "lon" r.lon) "lat" r.lat
    else df
  if !(kept inc exc r) then df
  else
    let df := if writeData && r.stream != "" then addIfAbsent df r.stream (some r.data) else df
    addIfAbsent df (columnName r) (some r.results)

def storeSave (writeData writeAxes : Bool) (inc exc : Option (List String)) (rs : List StoreRes) : Frame :=
  rs.foldl (saveStep writeData writeAxes inc exc) []

end IoosQc
