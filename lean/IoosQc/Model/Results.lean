/-
  IoosQc.Model.Results — `results.collect_results` (list and dict form).

  Every yielded ContextResult carries a boolean `subset_indexes` over the input rows and, for each
  test, the flags of the subset rows; collecting assigns `acc[subset_indexes] = values` context
  after context (numpy boolean-mask assignment: the k-th True position receives the k-th value).
  Values are opaque here (`Int` identifiers interned by the harness; flags are their own codes).
-/
import IoosQc.Model.Basic

namespace IoosQc

/-- `acc[mask] = vals`: the k-th True position of `mask` receives `vals[k]`. -/
def scatter : List (Option Int) → List Bool → List Int → List (Option Int)
  | [], _, _ => []
  | a :: as, [], _ => a :: as
  | a :: as, false :: ms, vs => a :: scatter as ms vs
  | _ :: as, true :: ms, v :: vs => some v :: scatter as ms vs
  | a :: as, true :: ms, [] => a :: scatter as ms []

/-- One context's contribution to one collected column. -/
structure Piece where
  mask : List Bool
  vals : List Int
  deriving Repr, DecidableEq, Inhabited

/-- List form: start fully masked (`np.ma.masked_all`), scatter every context in yield order. -/
def collectColumn (n : Nat) (ps : List Piece) : List (Option Int) :=
  ps.foldl (fun acc p => scatter acc p.mask p.vals) (List.replicate n none)

/-- Dict form: start UNKNOWN everywhere, scatter every context in yield order. -/
def collectDict (n : Nat) (ps : List Piece) : List Int :=
  (ps.foldl (fun acc p => scatter acc p.mask p.vals) (List.replicate n (some 2))).map (·.getD 2)

/-- A yielded context result restricted to what collection needs: its collection key
    (`stream_id:package.test`) and one piece per column name. -/
structure CtxPiece where
  key : String
  cols : List (String × Piece)      -- "results", "data", "tinp", "zinp", "lat", "lon"
  deriving Repr, Inhabited

def piecesFor (cs : List CtxPiece) (key col : String) : List Piece :=
  cs.filterMap fun c => if c.key = key then (c.cols.find? (·.1 = col)).map (·.2) else none

/-- Distinct keys in order of first appearance (`OrderedDict` insertion order). -/
def distinctKeys (cs : List CtxPiece) : List String :=
  cs.foldl (fun acc c => if acc.contains c.key then acc else acc ++ [c.key]) []

end IoosQc
