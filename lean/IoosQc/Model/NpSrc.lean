/-
  IoosQc.Model.NpSrc — the three array-level transcriptions in the exact form
  `harness/translate.py` produces from /repo's source: one Lean `do` block per Python function,
  one line per Python statement, mutable variables as `let mut`, `if x is not None` as
  `if let some x := x`, `raise ValueError` as `throw .value`, numpy expressions as the primitives
  of `Model/Np.lean`.

  THIS FILE IS THE TRANSLATOR'S OUTPUT for the pinned tree, committed so that theorems can be
  stated about it (`Theorems/NpSrc.lean`: each function below equals the pointwise model of
  `Model/Tests.lean`).  On every run the translator regenerates the same three definitions from
  the CURRENT source into a scratch file, and the kernel checks that they are the definitions
  below (`rfl`); the theorems then speak about what the code says now.

  Statements the translator drops, because they do nothing on the logical domain (1-D series,
  carriers already normalised): `original_shape = x.shape`, `x = x.flatten()`,
  `.reshape(original_shape)`, `tinp = mapdates(tinp).flatten()` (C15's business), dtype
  arguments, the `warnings` / `np.errstate` context managers, `msg = …`, `bboxnt = namedtuple(…)`; `if bbox is not None:` is
  inlined (an explicit `bbox=None` is outside the model's domain); `great_circle_distance(lat, lon)` is the model input `hops`.
-/
import IoosQc.Model.Np

namespace IoosQc.NpSrc
open IoosQc.Np

-- BEGIN GENERATED (harness/translate.py)
def gross_range_test (inp : List V) (fail_span : SeqArg) (suspect_span : Option SeqArg) : Res := do
  fixedLength fail_span 2
  let sspan ← sortedSpan fail_span
  let inp := ofInput inp
  let mut flag_arr := ones inp.length
  flag_arr := setWhere flag_arr (maskOf inp) .missing
  if let some suspect_span := suspect_span then
    fixedLength suspect_span 2
    let uspan ← sortedSpan suspect_span
    if uspan.1 < sspan.1 || uspan.2 > sspan.2 then
      throw .value
    flag_arr := setWhereB flag_arr (bor (ltS inp uspan.1) (gtS inp uspan.2)) .suspect
  flag_arr := setWhereB flag_arr (bor (ltS inp sspan.1) (gtS inp sspan.2)) .fail
  return flag_arr

def spike_test (inp : List V) (suspect_threshold : Option Rat) (fail_threshold : Option Rat) (method : String) : Res := do
  let inp := ofInput inp
  let mut ref : MArr := []
  let mut diff : MArr := []
  if method = "average" then
    ref := zeros inp.length
    ref := setInner ref (maDivS (maBin Fl.add (init2 inp) (tail2 inp)) 2)
    ref := maskedInvalid ref
    diff := uf1 Fl.abs (maBin Fl.sub inp ref)
  else if method = "differential" then
    ref := maDiff inp
    diff := zeros inp.length
    diff := setInner diff (uf2 Fl.min (uf1 Fl.abs (init1 ref)) (uf1 Fl.abs (tail1 ref)))
    diff := setInner diff (setZeroWhereB (tail1 (init1 diff)) (geS (maBin Fl.mul (init1 ref) (tail1 ref)) 0))
  else
    throw .value
  let mut flag_arr := ones inp.length
  if let some suspect_threshold := suspect_threshold then
    flag_arr := setWhereB flag_arr (gtS diff suspect_threshold) .suspect
  if let some fail_threshold := fail_threshold then
    flag_arr := setWhereB flag_arr (gtS diff fail_threshold) .fail
  flag_arr := setFirst flag_arr .unknown
  flag_arr := setLast flag_arr .unknown
  flag_arr := setWhere flag_arr (maskOf diff) .missing
  return flag_arr

def rate_of_change_test (inp : List V) (tinp : List Int) (threshold : Rat) : Res := do
  let inp := ofInput inp
  let mut flag_arr := ones inp.length
  let mut roc := zeros inp.length
  if inp.length != tinp.length then
    throw .value
  roc := setTail roc (uf1 Fl.abs (maDivArr (maDiff inp) (dtSeconds tinp)))
  flag_arr := setWhereB flag_arr (gtS roc threshold) .suspect
  flag_arr := setWhere flag_arr (maskOf inp) .missing
  return flag_arr

def location_test (lon : List V) (lat : List V) (bbox : SeqArg) (range_max : Option Rat) (hops : List V) : Res := do
  fixedLength bbox 4
  let bbox ← boxOf bbox
  let lat := ofInput lat
  let lon := ofInput lon
  if lon.length != lat.length then
    throw .value
  let mut flag_arr := ones lon.length
  let mut mloc := band (maskOf lon) (maskOf lat)
  flag_arr := setWhere flag_arr mloc .missing
  let mut mismatch := bxor (maskOf lon) (maskOf lat)
  flag_arr := setWhere flag_arr mismatch .fail
  if let some range_max := range_max then
    if lon.length > 1 then
      let mut d := greatCircle hops lon.length
      flag_arr := setWhereB flag_arr (gtS d range_max) .suspect
  flag_arr := setWhereB flag_arr (bor (bor (bor (ltS lon bbox.minx) (ltS lat bbox.miny)) (gtS lon bbox.maxx)) (gtS lat bbox.maxy)) .fail
  return flag_arr

def density_inversion_test (inp : List V) (zinp : List V) (suspect_threshold : Option Rat) (fail_threshold : Option Rat) : Res := do
  let inp := ofInput inp
  let zinp := ofInput zinp
  if inp.length != zinp.length then
    throw .value
  let mut flag_arr := ones inp.length
  if inp.length == 0 then
    return []
  if inp.length < 2 then
    flag_arr ← setAt0 flag_arr .unknown
    return flag_arr
  let mut delta := maBin Fl.mul (uf1 Fl.sign (maDiff zinp)) (maDiff inp)
  if let some suspect_threshold := suspect_threshold then
    let mut is_suspect := ltS delta suspect_threshold
    if anyB is_suspect then
      flag_arr := setInit1 flag_arr (setWhereB (init1 flag_arr) (eqTrue is_suspect) .suspect)
      flag_arr := setTail flag_arr (setWhereB (tail1 flag_arr) (eqTrue is_suspect) .suspect)
  if let some fail_threshold := fail_threshold then
    let mut is_fail := ltS delta fail_threshold
    if anyB is_fail then
      flag_arr := setInit1 flag_arr (setWhereB (init1 flag_arr) (eqTrue is_fail) .fail)
      flag_arr := setTail flag_arr (setWhereB (tail1 flag_arr) (eqTrue is_fail) .fail)
  let mut is_missing := bor2 (maskOf inp) (maskOf zinp)
  flag_arr := setWhere flag_arr is_missing .missing
  flag_arr := setTail flag_arr (setWhere (tail1 flag_arr) (init1 is_missing) .missing)
  return flag_arr

def speed_test (lon : List V) (lat : List V) (tinp : List Int) (suspect_threshold : Rat) (fail_threshold : Rat) (hops : List V) : Res := do
  let lat := ofInput lat
  let lon := ofInput lon
  if lon.length != lat.length || lon.length != tinp.length then
    throw .value
  if lon.length == 0 then
    return []
  let mut flag_arr := ones lon.length
  let mut mloc := band (maskOf lon) (maskOf lat)
  flag_arr := setWhere flag_arr mloc .missing
  if lon.length < 2 then
    flag_arr ← setAt0 flag_arr .unknown
    return flag_arr
  let mut dist := greatCircle hops lon.length
  let mut speed := zeros tinp.length
  speed := setTail speed (uf1 Fl.abs (maDivArr (tail1 dist) (dtSeconds tinp)))
  flag_arr := setWhereB flag_arr (gtS speed suspect_threshold) .suspect
  flag_arr := setWhereB flag_arr (gtS speed fail_threshold) .fail
  flag_arr ← setAt0 flag_arr .unknown
  flag_arr := setWhere flag_arr (maskOf dist) .missing
  return flag_arr

def pressure_increasing_test (inp : List V) : Res := do
  let inp := ofInputFilled inp
  let mut delta := npDiff inp
  let mut flags := ones inp.length
  let mut sign := Fl.sign (npMean delta)
  if sign.ltS 0 then
    delta := npMulS sign delta
  let mut flag_idx := (npWhere (npLeS delta 0)).map (· + 1)
  flags := setIdx flags flag_idx .suspect
  return flags

def valid_range_test (inp : List V) (valid_span : V × V) (start_inclusive : Bool) (end_inclusive : Bool) (junk : List Fl) : Res := do
  let inp := ofInputJunk inp junk
  let mut flag_arr := ones inp.length
  if let some valid_span_0 := valid_span.1 then
    if start_inclusive = true then
      flag_arr := setWhereB flag_arr (ltS inp valid_span_0) .fail
    else
      flag_arr := setWhereB flag_arr (leS inp valid_span_0) .fail
  if let some valid_span_1 := valid_span.2 then
    if end_inclusive = true then
      flag_arr := setWhereB flag_arr (gtS inp valid_span_1) .fail
    else
      flag_arr := setWhereB flag_arr (geS inp valid_span_1) .fail
  flag_arr := setWhere flag_arr (maskOf inp) .missing
  return flag_arr

def flat_line_test (inp : List V) (tinp : List Int) (suspect_threshold : Rat) (fail_threshold : Rat) (tolerance : Rat) : Res := do
  let inp := ofInput inp
  let mut flag_arr := ones inp.length
  if inp.length < 3 then
    flag_arr := setWhere flag_arr (maskOf inp) .missing
    return flag_arr
  let mut time_interval := medianStep tinp
  let run_test := fun (flag_arr : List Flag) (test_threshold : Rat) (flag_value : Flag) =>
    let count := flatCount test_threshold time_interval
    let window := rollingWindow inp count
    let data_min := rowMin window
    let data_max := rowMax window
    let data_range := uf1 Fl.abs (maBin Fl.sub data_max data_min)
    let test_results := filledFalse (ltS data_range tolerance)
    let n_fill := min inp.length count
    let test_results := insertFalse n_fill test_results
    setWhere flag_arr test_results flag_value
  flag_arr := run_test flag_arr suspect_threshold .suspect
  flag_arr := run_test flag_arr fail_threshold .fail
  flag_arr := setWhere flag_arr (maskOf inp) .missing
  return flag_arr


def climatology_check (periodOf : Period → Int → Int) (members : List Member) (tinp : List Int) (inp : MArr) (zinp : MArr) : Res := do
  let mut flag_arr := emptyFlags inp.length
  flag_arr := fillFlags flag_arr .unknown
  flag_arr := setWhere flag_arr (maskOf inp) .missing
  for m in members do
    let mut tinp_copy : List Rat := []
    if let some period := m.period then
      if period = Period.week then
        tinp_copy := isoWeekOf periodOf tinp
      else
        tinp_copy := attrOf periodOf period tinp
    else
      tinp_copy := asInstants tinp
    if m.zspan.isSome && noneUnmasked zinp then
      continue
    let mut t_idx := band (geR tinp_copy m.tspan.1) (leR tinp_copy m.tspan.2)
    let mut z_idx : BArr := []
    if let some zspan := m.zspan then
      z_idx := andB (andB (plainB (notP (maskOf zinp))) (geS zinp zspan.1)) (leS zinp zspan.2)
    else
      z_idx := zipMask (notP (isnanData inp)) (maskOf inp)
    let mut values_idx := andB (plainB t_idx) z_idx
    let mut fail_idx : BArr := []
    if let some fspan := m.fspan then
      fail_idx := bor (ltS inp fspan.1) (gtS inp fspan.2)
    else
      fail_idx := plainB (List.replicate inp.length false)
    let mut suspect_idx := bor (ltS inp m.vspan.1) (gtS inp m.vspan.2)
    flag_arr := setWhereB flag_arr (andB values_idx fail_idx) .fail
    flag_arr := setWhereB flag_arr (andB (andB values_idx (notB fail_idx)) suspect_idx) .suspect
    flag_arr := setWhereB flag_arr (andB (andB values_idx (notB fail_idx)) (notB suspect_idx)) .good
  flag_arr := setWhere flag_arr (maskOf inp) .missing
  return flag_arr

def climatology_test (periodOf : Period → Int → Int) (config : List Member) (inp : List V) (tinp : List Int) (zinp : List V) : Res := do
  let inp := ofInput inp
  let zinp := ofInput zinp
  let mut flag_arr ← climatology_check periodOf config tinp inp zinp
  return flag_arr

def attenuated_signal_test (inp : List V) (tinp : List Int) (suspect_threshold : Rat) (fail_threshold : Rat) (test_period : Option Rat) (min_obs : Option Nat) (min_period : Option Rat) (check_type : String) : Res := do
  let mut window_func := WinFunc.std
  let mut check_func := CheckFunc.std
  if check_type = "std" then
    window_func := WinFunc.std
    check_func := CheckFunc.std
  else if check_type = "range" then
    window_func := WinFunc.ptp
    check_func := CheckFunc.ptp
  else
    throw .value
  let inp := ofInput inp
  let mut flag_arr := List.replicate inp.length Flag.unknown
  if inp.length == 0 then
    return flag_arr
  let mut check_val : List Stat := []
  if let some test_period := test_period then
    let mut min_periods : Option Nat := none
    if let some min_obs := min_obs then
      min_periods := some min_obs
    else if let some min_period := min_period then
      let mut time_interval := medianStep tinp
      min_periods := some (ratioFloor min_period time_interval)
    else
      min_periods := none
    check_val := rollingApply window_func min_periods inp tinp test_period
  else
    check_val := List.replicate flag_arr.length (wholeApply check_func inp)
  flag_arr := setWhere flag_arr (statGe check_val suspect_threshold) .good
  flag_arr := setWhere flag_arr (statLt check_val suspect_threshold) .suspect
  flag_arr := setWhere flag_arr (statIsNan check_val) .unknown
  flag_arr := setWhere flag_arr (statLt check_val fail_threshold) .fail
  flag_arr := setWhere flag_arr (maskOf inp) .missing
  return flag_arr
-- END GENERATED

end IoosQc.NpSrc
