/-
  IoosQc.Model.NpSrc — the three array-level transcriptions in the exact form
  `harness/translate.py` produces from /repo's source: one Lean `do` block per Python function,
  one line per Python statement, mutable variables as `let mut`, `if x is not None` as
  `if let some x := x`, `raise ValueError` as `throw .value`, numpy expressions as the primitives
  of `Model/Np.lean`.

  THIS FILE IS THE TRANSLATOR'S OUTPUT for the pinned tree, committed so that theorems can be
  stated about it (`Theorems/NpSrc.lean`: each function below equals the pointwise model of
  `Model/Tests.lean`).  On every run the translator regenerates the same three definitions from
  the CURRENT source into a scratch file, and the kernel checks that they are the definitions
  below (`rfl`); the theorems then speak about what the code says now.

  Statements the translator drops, because they do nothing on the logical domain (1-D series,
  carriers already normalised): `original_shape = x.shape`, `x = x.flatten()`,
  `.reshape(original_shape)`, `tinp = mapdates(tinp).flatten()` (C15's business), dtype
  arguments, the `warnings` / `np.errstate` context managers, `msg = …`, `bboxnt = namedtuple(…)`; `if bbox is not None:` is
  inlined (an explicit `bbox=None` is outside the model's domain); `great_circle_distance(lat, lon)` is the model input `hops`.
-/
import IoosQc.Model.Np

namespace IoosQc.NpSrc
open IoosQc.Np

-- BEGIN GENERATED (harness/translate.py)
def gross_range_test (inp : List V) (fail_span : SeqArg) (suspect_span : Option SeqArg) : Res := do
  fixedLength fail_span 2
  let sspan ← sortedSpan fail_span
  let inp := ofInput inp
  let mut flag_arr := ones inp.length
  flag_arr := setWhere flag_arr (maskOf inp) .missing
  if let some suspect_span := suspect_span then
    fixedLength suspect_span 2
    let uspan ← sortedSpan suspect_span
    if uspan.1 < sspan.1 || uspan.2 > sspan.2 then
      throw .value
    flag_arr := setWhereB flag_arr (bor (ltS inp uspan.1) (gtS inp uspan.2)) .suspect
  flag_arr := setWhereB flag_arr (bor (ltS inp sspan.1) (gtS inp sspan.2)) .fail
  return flag_arr

def spike_test (inp : List V) (suspect_threshold : Option Rat) (fail_threshold : Option Rat) (method : String) : Res := do
  let inp := ofInput inp
  let mut ref : MArr := []
  let mut diff : MArr := []
  if method = "average" then
    ref := zeros inp.length
    ref := setInner ref (maDivS (maBin Fl.add (init2 inp) (tail2 inp)) 2)
    ref := maskedInvalid ref
    diff := uf1 Fl.abs (maBin Fl.sub inp ref)
  else if method = "differential" then
    ref := maDiff inp
    diff := zeros inp.length
    diff := setInner diff (uf2 Fl.min (uf1 Fl.abs (init1 ref)) (uf1 Fl.abs (tail1 ref)))
    diff := setInner diff (setZeroWhereB (tail1 (init1 diff)) (geS (maBin Fl.mul (init1 ref) (tail1 ref)) 0))
  else
    throw .value
  let mut flag_arr := ones inp.length
  if let some suspect_threshold := suspect_threshold then
    flag_arr := setWhereB flag_arr (gtS diff suspect_threshold) .suspect
  if let some fail_threshold := fail_threshold then
    flag_arr := setWhereB flag_arr (gtS diff fail_threshold) .fail
  flag_arr := setFirst flag_arr .unknown
  flag_arr := setLast flag_arr .unknown
  flag_arr := setWhere flag_arr (maskOf diff) .missing
  return flag_arr

def rate_of_change_test (inp : List V) (tinp : List Int) (threshold : Rat) : Res := do
  let inp := ofInput inp
  let mut flag_arr := ones inp.length
  let mut roc := zeros inp.length
  if inp.length != tinp.length then
    throw .value
  roc := setTail roc (uf1 Fl.abs (maDivArr (maDiff inp) (dtSeconds tinp)))
  flag_arr := setWhereB flag_arr (gtS roc threshold) .suspect
  flag_arr := setWhere flag_arr (maskOf inp) .missing
  return flag_arr

def location_test (lon : List V) (lat : List V) (bbox : SeqArg) (range_max : Option Rat) (hops : List V) : Res := do
  fixedLength bbox 4
  let bbox ← boxOf bbox
  let lat := ofInput lat
  let lon := ofInput lon
  if lon.length != lat.length then
    throw .value
  let mut flag_arr := ones lon.length
  let mut mloc := band (maskOf lon) (maskOf lat)
  flag_arr := setWhere flag_arr mloc .missing
  let mut mismatch := bxor (maskOf lon) (maskOf lat)
  flag_arr := setWhere flag_arr mismatch .fail
  if let some range_max := range_max then
    if lon.length > 1 then
      let mut d := greatCircle hops lon.length
      flag_arr := setWhereB flag_arr (gtS d range_max) .suspect
  flag_arr := setWhereB flag_arr (bor (bor (bor (ltS lon bbox.minx) (ltS lat bbox.miny)) (gtS lon bbox.maxx)) (gtS lat bbox.maxy)) .fail
  return flag_arr
-- END GENERATED

end IoosQc.NpSrc
