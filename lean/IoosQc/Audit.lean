/- `#print axioms` for every property theorem; the output is parsed by harness/engine.py. -/
import IoosQc
open IoosQc
#print axioms C03_gross
#print axioms C03_valid
#print axioms C03_gross_endpoints_not_fail
#print axioms C03_gross_order
#print axioms C04_main
#print axioms C04_compareAt
#print axioms C04_worst_ge
#print axioms C04_worst_mem
#print axioms C04_perm
#print axioms C04_dup
#print axioms C04_assoc
#print axioms C04_idem
