/-
  C18 — a test that cannot run drops out without disturbing the rest of the run.

  Model: a run is a list of configured entries, one per (context, stream, module, test); an
  entry is either healthy — then it contributes the result it yields when configured alone
  (`result`, an opaque identifier of the collected flag vector) — or it cannot be executed
  (unknown module / test, rejected parameters, missing input, absent stream, raising callee) and
  contributes nothing.  `Call.run` evaluates every call independently inside its own
  `try … except`, and the stream front ends keep no state between calls: in the model this is the
  `filterMap`.  That the code has no cross-call state either is what the correspondence run checks.
-/
import IoosQc.Model.Basic

namespace IoosQc

inductive FaultKind where
  | unknownModule | unknownTest | badParams | missingInput | absentStream | raises
  deriving DecidableEq, Repr, Inhabited

structure Entry where
  key : String                 -- stream:module.test
  fault : Option FaultKind     -- none = healthy
  result : Nat                 -- identifier of the result the test yields when configured alone
  deriving DecidableEq, Repr, Inhabited

def Entry.healthy (e : Entry) : Bool := e.fault.isNone

/-- Results contributed by a run over the configured entries, in configuration order. -/
def runEntries (es : List Entry) : List (String × Nat) :=
  es.filterMap fun e => if e.healthy then some (e.key, e.result) else none

def countOf (p : String × Nat) (l : List (String × Nat)) : Nat := l.count p

/-- Observation: the collected (key, result id) pairs of the run with the failing entries. They
    must be exactly the results the healthy entries yield alone — nothing from a failing entry,
    nothing missing, nothing changed. -/
def C18.holds (es : List Entry) (obs : List (String × Nat)) : Bool :=
  let want := runEntries es
  obs.length == want.length && want.all (fun p => countOf p obs == countOf p want)

end IoosQc
