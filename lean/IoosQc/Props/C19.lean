/-
  C19 — the pandas store writes one aligned, uniquely named column per test result.
  Written from the property text: which columns must exist, with which contents; names only have
  to be CF-safe, except that a name that is already safe up to its dots is kept literally.
-/
import IoosQc.Model.Store

namespace IoosQc

/-- Only letters, digits and underscores, never starting with a digit. -/
def cfSafe (name : String) : Bool :=
  name.toList.all isSafeChar && (match name.toList with | c :: _ => !isAsciiDigit c | [] => true)

/-- `stream.package.test` is already safe up to its dots: the column is `stream_package_test`. -/
def plainName (r : StoreRes) : Option String :=
  let raw := (rawName r).toList
  if raw.all (fun c => isSafeChar c || c == '.') &&
     (match raw with | c :: _ => !(isAsciiDigit c || c == '_') | [] => false) then
    some (String.ofList (raw.map fun c => if c == '.' then '_' else c))
  else none

structure StoreCase where
  writeData : Bool
  writeAxes : Bool
  inc : Option (List String)
  exc : Option (List String)
  rs : List StoreRes
  deriving Repr, Inhabited

def firstSome (rs : List StoreRes) (f : StoreRes → Option Nat) : Option Nat := rs.findSome? f

/-- The axis columns the frame must hold (from the first result that supplies each axis). -/
def expectedAxes (c : StoreCase) : Frame :=
  if c.writeAxes then
    [("time", firstSome c.rs (·.tinp)), ("z", firstSome c.rs (·.zinp)), ("lon", firstSome c.rs (·.lon)),
     ("lat", firstSome c.rs (·.lat))].filterMap fun (n, v) => v.map (fun x => (n, x))
  else []

def keptResults (c : StoreCase) : List StoreRes := c.rs.filter (kept c.inc c.exc)

/-- The data columns: one per stream id of a kept result. -/
def expectedData (c : StoreCase) : Frame :=
  if c.writeData then
    (keptResults c).foldl (fun acc r => if r.stream = "" || acc.any (·.1 = r.stream) then acc else acc ++ [(r.stream, r.data)]) []
  else []

def sortNats (l : List Nat) : List Nat := l.mergeSort (· ≤ ·)

def C19.holds (c : StoreCase) (obs : Frame) : Bool :=
  let axes := expectedAxes c
  let data := expectedData c
  let isAxis (n : String) : Bool := axes.any (·.1 = n)
  let isData (n : String) : Bool := data.any (·.1 = n)
  let flagCols := obs.filter fun p => !(isAxis p.1) && !(isData p.1)
  let ks := keptResults c
  axes.all (fun p => obs.contains p) && data.all (fun p => obs.contains p) &&
  (obs.map (·.1)).Nodup &&
  flagCols.all (fun p => cfSafe p.1) &&
  sortNats (flagCols.map (·.2)) == sortNats (ks.map (·.results)) &&
  ks.all (fun r => match plainName r with
                   | some nm => flagCols.contains (nm, r.results)
                   | none => true)

/-- No two kept results share a column name, and no stream id clashes with another column. -/
def noCollision (c : StoreCase) : Bool :=
  let ks := keptResults c
  (ks.map columnName).Nodup &&
  ks.all (fun r => !(["time", "z", "lon", "lat"].contains r.stream) &&
                   ks.all (fun q => columnName q != r.stream)) &&
  ks.all (fun r => !(["time", "z", "lon", "lat"].contains (columnName r)))

end IoosQc
