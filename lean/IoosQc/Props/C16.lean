/-
  C16 — stricter thresholds never produce a better flag.
  `stricter c c'` : c' is the same test on the same data with parameters at least as strict.
  `C16.holds o o'` : no flag becomes less severe in GOOD < SUSPECT < FAIL and the set of
  UNKNOWN / MISSING points is unchanged.
-/
import IoosQc.Props.Domain

namespace IoosQc

/-- `a'` at most `a`, an absent old threshold allowing any new one ("adding a threshold"). -/
def optLe (new old : Option Rat) : Bool :=
  match old, new with
  | none, _ => true
  | some _, none => false
  | some o, some n => decide (n ≤ o)

/-- `a'` at least `a`, likewise. -/
def optGe (new old : Option Rat) : Bool :=
  match old, new with
  | none, _ => true
  | some _, none => false
  | some o, some n => decide (o ≤ n)

/-- span `new` (any order) nested inside span `old` (any order). -/
def nested (new old : Rat × Rat) : Bool :=
  decide (lo2 old.1 old.2 ≤ lo2 new.1 new.2) && decide (hi2 new.1 new.2 ≤ hi2 old.1 old.2)

def seqPair (a : SeqArg) : Option (Rat × Rat) :=
  match a.vals with | [x, y] => some (x, y) | _ => none

def optNested (new old : Option (Rat × Rat)) : Bool :=
  match old, new with
  | none, _ => true
  | some _, none => false
  | some o, some n => nested n o

/-- lower bound of a valid span: `new` admits no value that `old` rejects from below. -/
def lowerStricter (loN : V) (inclN : Bool) (loO : V) (inclO : Bool) : Bool :=
  match loO, loN with
  | none, _ => true
  | some _, none => false
  | some o, some n => decide (o < n) || (decide (o = n) && (!inclN || inclO))

def upperStricter (hiN : V) (inclN : Bool) (hiO : V) (inclO : Bool) : Bool :=
  match hiO, hiN with
  | none, _ => true
  | some _, none => false
  | some o, some n => decide (n < o) || (decide (o = n) && (!inclN || inclO))

def memberStricter (n o : Member) : Bool :=
  decide (n.tspan = o.tspan) && decide (n.zspan = o.zspan) && decide (n.period = o.period) &&
  nested n.vspan o.vspan && optNested n.fspan o.fspan

def membersStricter : List Member → List Member → Bool
  | [], [] => true
  | n :: ns, o :: os => memberStricter n o && membersStricter ns os
  | _, _ => false

/-- `stricter old new`. -/
def stricter : TestCall → TestCall → Bool
  | .gross f s inp, .gross f' s' inp' =>
      decide (inp = inp') && f.isSeq && f'.isSeq && (s.all (·.isSeq)) && (s'.all (·.isSeq)) &&
      (match seqPair f, seqPair f' with
       | some p, some p' => nested p' p &&
          (match s, s' with
           | none, none => true
           | none, some u' => (match seqPair u' with | some q' => nested q' p' | none => false)
           | some _, none => false
           | some u, some u' =>
             (match seqPair u, seqPair u' with
              | some q, some q' => nested q' q && nested q p && nested q' p'
              | _, _ => false))
       | _, _ => false)
  | .valid lo hi si ei inp, .valid lo' hi' si' ei' inp' =>
      decide (inp = inp') && lowerStricter lo' si' lo si && upperStricter hi' ei' hi ei
  | .location lon lat b r h, .location lon' lat' b' r' h' =>
      decide (lon = lon') && decide (lat = lat') && decide (h = h') && b.isSeq && b'.isSeq &&
      (match b.vals, b'.vals with
       | [x0, y0, x1, y1], [x0', y0', x1', y1'] =>
          decide (x0 ≤ x0') && decide (y0 ≤ y0') && decide (x1' ≤ x1) && decide (y1' ≤ y1)
       | _, _ => false) && optLe r' r
  | .climatology ms inp t z, .climatology ms' inp' t' z' =>
      decide (inp = inp') && decide (t = t') && decide (z = z') && membersStricter ms' ms
  | .spike m s f inp, .spike m' s' f' inp' =>
      decide (m = m') && decide (inp = inp') && optLe s' s && optLe f' f
  | .roc inp t thr, .roc inp' t' thr' => decide (inp = inp') && decide (t = t') && decide (thr' ≤ thr)
  | .flatLine inp t s f tol, .flatLine inp' t' s' f' tol' =>
      decide (inp = inp') && decide (t = t') && decide (s' ≤ s) && decide (f' ≤ f) && decide (tol ≤ tol')
  | .attenuated ct inp t s f p mo mp, .attenuated ct' inp' t' s' f' p' mo' mp' =>
      decide (ct = ct') && decide (inp = inp') && decide (t = t') && decide (p = p') && decide (mo = mo') &&
      decide (mp = mp') && decide (s ≤ s') && decide (f ≤ f')
  | .density rho z s f, .density rho' z' s' f' =>
      decide (rho = rho') && decide (z = z') && optGe s' s && optGe f' f
  | .speed lon lat t s f h, .speed lon' lat' t' s' f' h' =>
      decide (lon = lon') && decide (lat = lat') && decide (t = t') && decide (h = h') &&
      decide (s' ≤ s) && decide (f' ≤ f)
  | _, _ => false

def sevOfCode (c : Int) : Option Nat :=
  if c == 1 then some 0 else if c == 3 then some 1 else if c == 4 then some 2 else none

/-- One position: not evaluated (UNKNOWN/MISSING) before iff not evaluated after (with the same
    flag), and no improvement otherwise. -/
def C16.holdsAt (c c' : Int) : Bool :=
  match sevOfCode c, sevOfCode c' with
  | none, none => (c == 2 || c == 9) && (c' == 2 || c' == 9)
  | some a, some b => decide (a ≤ b)
  | _, _ => false

def C16.holdsList : List Int → List Int → Bool
  | [], [] => true
  | a :: as, b :: bs => C16.holdsAt a b && C16.holdsList as bs
  | _, _ => false

def C16.holds (o o' : Obs) : Bool :=
  match o, o' with
  | .flags a, .flags b => C16.holdsList a b
  | _, _ => false

end IoosQc
