/-
  C17 — flags ignore value/time offsets and depend only on the local neighbourhood.
  `applyT t c` builds the transformed call; `C17.holds t c o o'` relates the two observations.
-/
import IoosQc.Props.Domain

namespace IoosQc

inductive Transform where
  | addValue (k : Rat)
  | negate
  | shiftTime (τ : Int)
  | shiftBoth (k : Rat)
  | reverse
  | perturb (j : Nat) (v : V)                 -- set the tested series at j
  | perturbAux (j : Nat) (v : V)              -- set the depth at j (density, climatology)
  | perturbPos (j : Nat) (lon lat : V) (hops : List V)   -- new position at j, recomputed hop list
  deriving Repr, DecidableEq, Inhabited

def vadd (k : Rat) (x : V) : V := x.map (· + k)
def vneg (x : V) : V := x.map (fun v => -v)
def addAll (k : Rat) (xs : List V) : List V := xs.map (vadd k)
def negAll (xs : List V) : List V := xs.map vneg
def shiftT (τ : Int) (ts : List Int) : List Int := ts.map (· + τ)
def shiftSeq (k : Rat) (a : SeqArg) : SeqArg := { a with vals := a.vals.map (· + k) }

def shiftMember (τ : Int) (m : Member) : Member :=
  { m with tspan := (m.tspan.1 + (τ : Rat), m.tspan.2 + (τ : Rat)) }

/-- Two hop lists agree except on the two hops that touch position `j`. -/
def hopsAgreeExcept (j : Nat) (h h' : List V) : Bool :=
  h.length == h'.length &&
  (List.range h.length).all fun k => k + 1 == j || k == j || getV h k == getV h' k

def applyT : Transform → TestCall → Option TestCall
  | .addValue k, .spike m s f inp => some (.spike m s f (addAll k inp))
  | .addValue k, .roc inp t thr => some (.roc (addAll k inp) t thr)
  | .addValue k, .flatLine inp t s f tol => some (.flatLine (addAll k inp) t s f tol)
  | .addValue k, .attenuated ct inp t s f p mo mp => some (.attenuated ct (addAll k inp) t s f p mo mp)
  | .addValue k, .density rho z s f => some (.density (addAll k rho) z s f)
  | .negate, .spike m s f inp => some (.spike m s f (negAll inp))
  | .negate, .roc inp t thr => some (.roc (negAll inp) t thr)
  | .negate, .flatLine inp t s f tol => some (.flatLine (negAll inp) t s f tol)
  | .negate, .attenuated ct inp t s f p mo mp => some (.attenuated ct (negAll inp) t s f p mo mp)
  | .shiftTime τ, .roc inp t thr => some (.roc inp (shiftT τ t) thr)
  | .shiftTime τ, .flatLine inp t s f tol => some (.flatLine inp (shiftT τ t) s f tol)
  | .shiftTime τ, .attenuated ct inp t s f p mo mp => some (.attenuated ct inp (shiftT τ t) s f p mo mp)
  | .shiftTime τ, .speed lon lat t s f h => some (.speed lon lat (shiftT τ t) s f h)
  | .shiftTime τ, .climatology ms inp t z =>
      if ms.all (fun m => m.period.isNone) then
        some (.climatology (ms.map (shiftMember τ)) inp (shiftT τ t) z)
      else none
  | .shiftBoth k, .gross f s inp => some (.gross (shiftSeq k f) (s.map (shiftSeq k)) (addAll k inp))
  | .shiftBoth k, .valid lo hi si ei inp => some (.valid (vadd k lo) (vadd k hi) si ei (addAll k inp))
  | .reverse, .spike m s f inp => some (.spike m s f inp.reverse)
  | .perturb j v, .gross f s inp => some (.gross f s (inp.set j v))
  | .perturb j v, .valid lo hi si ei inp => some (.valid lo hi si ei (inp.set j v))
  | .perturb j v, .climatology ms inp t z => some (.climatology ms (inp.set j v) t z)
  | .perturb j v, .spike m s f inp => some (.spike m s f (inp.set j v))
  | .perturb j v, .roc inp t thr => some (.roc (inp.set j v) t thr)
  | .perturb j v, .flatLine inp t s f tol => some (.flatLine (inp.set j v) t s f tol)
  | .perturb j v, .attenuated ct inp t s f (some P) mo mp =>
      some (.attenuated ct (inp.set j v) t s f (some P) mo mp)
  | .perturb j v, .density rho z s f => some (.density (rho.set j v) z s f)
  | .perturbAux j v, .density rho z s f => some (.density rho (z.set j v) s f)
  | .perturbAux j v, .climatology ms inp t z => some (.climatology ms inp t (z.set j v))
  | .perturbPos j x y h', .location lon lat b r h =>
      if hopsAgreeExcept j h h' then some (.location (lon.set j x) (lat.set j y) b r h') else none
  | .perturbPos j x y h', .speed lon lat t s f h =>
      if hopsAgreeExcept j h h' then some (.speed (lon.set j x) (lat.set j y) t s f h') else none
  | _, _ => none

/-- May the flag at `i` change when observation `j` changes? -/
def nbhd (c : TestCall) (j i : Nat) : Bool :=
  match c with
  | .gross _ _ _ | .valid _ _ _ _ _ | .climatology _ _ _ _ => i == j
  | .location _ _ _ _ _ | .speed _ _ _ _ _ _ | .roc _ _ _ => i == j || i == j + 1
  | .spike _ _ _ _ | .density _ _ _ _ => decide (j ≤ i + 1) && decide (i ≤ j + 1)
  | .flatLine inp t s f _ =>
      if inp.length < 3 then i == j
      else
        let D := medianStep t
        decide (j ≤ i) && decide (i ≤ j + max (flatCount s D) (flatCount f D))
  | .attenuated _ _ t _ _ (some P) _ _ => decide (j ∈ trailing t P i)
  | _ => true

def isPerturb : Transform → Option Nat
  | .perturb j _ | .perturbAux j _ | .perturbPos j _ _ _ => some j
  | _ => none

def eqOutside (c : TestCall) (j : Nat) : Nat → List Int → List Int → Bool
  | _, [], [] => true
  | i, a :: as, b :: bs => (nbhd c j i || a == b) && eqOutside c j (i + 1) as bs
  | _, _, _ => false

def C17.holds (t : Transform) (c : TestCall) (o o' : Obs) : Bool :=
  match o, o' with
  | .flags a, .flags b =>
    (match t with
     | .reverse => b == a.reverse
     | _ => (match isPerturb t with
             | some j => eqOutside c j 0 a b
             | none => a == b))
  | _, _ => false

end IoosQc
