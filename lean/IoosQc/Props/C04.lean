/-
  C04 — the aggregate holds at every position the input flag of highest precedence
  MISSING < UNKNOWN < GOOD < SUSPECT < FAIL, ignoring masked entries and non-flags, MISSING where
  nothing remains.  Written from the property text: a maximum by rank.
-/
import IoosQc.Model.Aggregate
import IoosQc.Props.Spec

namespace IoosQc

def Cell.flag? : Cell → Option Flag
  | .flag f => some f
  | _ => none

/-- Highest-precedence flag among the cells, MISSING if there is none. -/
def worstOf (col : List Cell) : Flag :=
  (col.filterMap Cell.flag?).foldl (fun a f => if a.rank < f.rank then f else a) .missing

def C04.spec (vs : List (List Cell)) : SpecOut :=
  match vs with
  | [] => .reject none
  | v :: rest =>
    if rest.all (fun w => w.length == v.length) then
      .flags ((List.range v.length).map fun i => [worstOf (column vs i)])
    else .reject none

def C04.holds (vs : List (List Cell)) (o : Obs) : Bool := conforms (C04.spec vs) o

end IoosQc
