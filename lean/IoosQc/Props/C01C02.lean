/-
  IoosQc.Props.C01C02 — the predicates of C01 (one valid flag per point, no error) and
  C02 (missing discipline), written from the property text and evaluated on an observation.
-/
import IoosQc.Props.Domain

namespace IoosQc

/-- Parameters are "valid" (C01 talks about valid parameters only): the spec does not reject. -/
def TestCall.validParams (periodOf : Period → Int → Int) (c : TestCall) : Bool :=
  match c.spec periodOf with | .reject _ => false | .flags _ => true

def isFlagCode (c : Int) : Bool := c == 1 || c == 2 || c == 3 || c == 4 || c == 9

/-- C01 on one observation: returned without raising, one flag per element, each a valid flag.
    (Shape, mask, purity and determinism are observed by the harness itself: they are facts about
    Python objects, see DESIGN.md.) -/
def C01.holds (c : TestCall) (o : Obs) : Bool :=
  match o with
  | .flags cs => cs.length == c.size && cs.all isFlagCode
  | .error _ => false

/-! ### C02 -/

/-- Tests that document missing-data handling. -/
def C02.applies : TestCall → Bool
  | .pressure _ => false
  | _ => true

/-- The tested observation at `i` is missing (position tests: both coordinates). -/
def obsMissing : TestCall → Nat → Bool
  | .gross _ _ inp, i | .valid _ _ _ _ inp, i | .climatology _ inp _ _, i | .spike _ _ _ inp, i
  | .roc inp _ _, i | .flatLine inp _ _ _ _, i | .attenuated _ inp _ _ _ _ _ _, i
  | .density inp _ _ _, i | .pressure inp, i => (getV inp i).isNone
  | .location lon lat _ _ _, i | .speed lon lat _ _ _ _, i => (getV lon i).isNone && (getV lat i).isNone

/-- Positions where the test is undefined anyway: spike end points, speed's first point,
    a single-point profile. -/
def undefinedAt : TestCall → Nat → Bool
  | .spike _ _ _ inp, i => i == 0 || i + 1 == inp.length
  | .speed _ _ _ _ _ _, i => i == 0
  | .density inp _ _ _, _ => inp.length == 1
  | _, _ => false

/-- Some value the test needs to judge position `i` (other than the observation) is missing. -/
def neededMissing : TestCall → Nat → Bool
  | .spike _ _ _ inp, i =>
      (decide (0 < i) && (getV inp (i - 1)).isNone) || (decide (i + 1 < inp.length) && (getV inp (i + 1)).isNone)
  | .roc inp _ _, i => decide (0 < i) && (getV inp (i - 1)).isNone
  | .climatology _ _ _ z, i => (getV z i).isNone
  | .density rho z _ _, i =>
      (getV z i).isNone || (decide (0 < i) && recMissing rho z (i - 1)) ||
      (decide (i + 1 < rho.length) && recMissing rho z (i + 1))
  | .location lon lat _ _ _, i => (getV lon i).isNone || (getV lat i).isNone
  | .speed lon lat _ _ _ _, i =>
      (getV lon i).isNone || (getV lat i).isNone ||
      (decide (0 < i) && ((getV lon (i - 1)).isNone || (getV lat (i - 1)).isNone))
  | _, _ => false

def C02.holdsAt (c : TestCall) (i : Nat) (code : Int) : Bool :=
  if obsMissing c i then code == 9 || (undefinedAt c i && code == 2)
  else (code != 9 || neededMissing c i)

def C02.holdsFrom (c : TestCall) : Nat → List Int → Bool
  | _, [] => true
  | i, x :: xs => C02.holdsAt c i x && C02.holdsFrom c (i + 1) xs

/-- C02 on one observation (vacuous on an error: totality is C01's business). -/
def C02.holds (c : TestCall) (o : Obs) : Bool :=
  match o with
  | .flags cs => C02.holdsFrom c 0 cs
  | .error _ => true

end IoosQc
