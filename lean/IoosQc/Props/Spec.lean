/-
  IoosQc.Props.Spec — what the *functional* properties (C02, C03, C08–C14) say each test must
  return, written from the property text and not from the code: nested "FAIL iff … else SUSPECT
  iff … else GOOD" sentences, one per test.  At every position the spec gives the list of
  admissible flags; a singleton means the properties pin the flag down, a longer list means
  they leave a choice (e.g. spike at a present interior point whose neighbour is missing).

  `conforms spec obs` is the check that is evaluated on the *code's* observed output by the
  driver, and `Theorems/Functional.lean` proves `conforms (spec c) (model c)` for every call.
-/
import IoosQc.Model.Calendar

namespace IoosQc

/-- Canonical observation of one call of the real code. -/
inductive Obs where
  | flags (codes : List Int)      -- numeric flag values, in order
  | error (e : Err)
  deriving Repr, DecidableEq, Inhabited

def Res.toObs : Res → Obs
  | .ok fs => .flags (fs.map fun f => (f.code : Int))
  | .error e => .error e

inductive SpecOut where
  | flags (allowed : List (List Flag))
  | reject (cls : Option Err)     -- must raise; `some e`: must raise exactly this class
  deriving Repr, Inhabited

def anyFlag : List Flag := [.good, .unknown, .suspect, .fail, .missing]

def allowedCode (al : List Flag) (c : Int) : Bool := al.any fun f => (f.code : Int) == c

def conformsList : List (List Flag) → List Int → Bool
  | [], [] => true
  | a :: as, c :: cs => allowedCode a c && conformsList as cs
  | _, _ => false

def conforms (s : SpecOut) (o : Obs) : Bool :=
  match s, o with
  | .flags al, .flags cs => conformsList al cs
  | .reject none, .error _ => true
  | .reject (some e), .error e' => e == e'
  | _, _ => false

def lo2 (a b : Rat) : Rat := if a ≤ b then a else b
def hi2 (a b : Rat) : Rat := if a ≤ b then b else a

/-! ### C03 — range tests -/

/-- gross_range_test: FAIL iff strictly outside the fail span, else SUSPECT iff a suspect span
    is given and strictly outside it, else GOOD; a missing value is MISSING (C02). -/
def grossSpecAt (fa fb : Rat) (s : Option (Rat × Rat)) (x : V) : List Flag :=
  match x with
  | none => [.missing]
  | some v =>
    if v < lo2 fa fb ∨ hi2 fa fb < v then [.fail]
    else match s with
      | some (sa, sb) => if v < lo2 sa sb ∨ hi2 sa sb < v then [.suspect] else [.good]
      | none => [.good]

def grossSpec (fail : SeqArg) (suspect : Option SeqArg) (inp : List V) : SpecOut :=
  if !fail.isSeq then .reject none else
  match fail.vals with
  | [fa, fb] =>
    (match suspect with
     | none => .flags (inp.map (grossSpecAt fa fb none))
     | some s =>
       if !s.isSeq then .reject none else
       match s.vals with
       | [sa, sb] =>
         if lo2 sa sb < lo2 fa fb ∨ hi2 fa fb < hi2 sa sb then .reject (some .value)
         else .flags (inp.map (grossSpecAt fa fb (some (sa, sb))))
       | _ => .reject none)
  | _ => .reject none

/-- valid_range_test: FAIL exactly the present values outside the valid span; lower bound
    inclusive iff `startIncl`, upper iff `endIncl`; a missing bound is unbounded. -/
def validSpecAt (lo hi : V) (si ei : Bool) (x : V) : List Flag :=
  match x with
  | none => [.missing]
  | some v =>
    let below := match lo with | some l => if si then decide (v < l) else decide (v ≤ l) | none => false
    let above := match hi with | some h => if ei then decide (h < v) else decide (h ≤ v) | none => false
    if below || above then [.fail] else [.good]

/-! ### C14 — location -/

def locSpecAt (b : Box) (rangeMax : Option Rat) (lon lat : List V) (hops : List V) (i : Nat) : List Flag :=
  match getV lon i, getV lat i with
  | none, none => [.missing]
  | some _, none => [.fail]
  | none, some _ => [.fail]
  | some x, some y =>
    if x < b.minx ∨ b.maxx < x ∨ y < b.miny ∨ b.maxy < y then [.fail]
    else
      -- hop from the previous position, defined when both positions are fully present
      let hop : V := if i = 0 then none else
        (match getV lon (i - 1), getV lat (i - 1) with
         | some _, some _ => getV hops (i - 1)
         | _, _ => none)
      match rangeMax, hop with
      | some r, some d => if r < d then [.suspect] else [.good]
      | _, _ => [.good]

def locSpec (lon lat : List V) (bbox : SeqArg) (rangeMax : Option Rat) (hops : List V) : SpecOut :=
  if !bbox.isSeq then .reject none else
  match bbox.vals with
  | [x0, y0, x1, y1] =>
    if lon.length != lat.length then .reject none
    else .flags ((List.range lon.length).map (locSpecAt ⟨x0, y0, x1, y1⟩ rangeMax lon lat hops))
  | _ => .reject none

/-! ### C08 — climatology -/

def memberTime (periodOf : Period → Int → Int) (m : Member) (t : Int) : Rat :=
  match m.period with | some p => ((periodOf p t : Int) : Rat) | none => ((t : Int) : Rat)

/-- A member applies to an observation at time `t`, depth `z`. -/
def memberCovers (periodOf : Period → Int → Int) (m : Member) (t : Int) (z : V) : Bool :=
  let tv := memberTime periodOf m t
  decide (m.tspan.1 ≤ tv ∧ tv ≤ m.tspan.2) &&
  (match m.zspan with
   | none => true
   | some zs => (match z with | some zv => decide (zs.1 ≤ zv ∧ zv ≤ zs.2) | none => false))

def classify (m : Member) (v : Rat) : Flag :=
  if (match m.fspan with | some f => decide (v < f.1 ∨ f.2 < v) | none => false) then .fail
  else if v < m.vspan.1 ∨ m.vspan.2 < v then .suspect
  else .good

def climSpecAt (periodOf : Period → Int → Int) (ms : List Member) (t : Int) (x z : V) : List Flag :=
  match x with
  | none => [.missing]
  | some v =>
    match (ms.filter fun m => memberCovers periodOf m t z).getLast? with
    | none => [.unknown]
    | some m => [classify m v]

/-! ### C09 — spike -/

def spikeSpecAt (m : SpikeMethod) (sus fail : Option Rat) (xs : List V) (i : Nat) : List Flag :=
  let n := xs.length
  if i = 0 ∨ i + 1 = n then
    (match getV xs i with | some _ => [.unknown] | none => [.unknown, .missing])
  else match getV xs i with
    | none => [.missing]
    | some x =>
      match getV xs (i - 1), getV xs (i + 1) with
      | some p, some q =>
        let d : Rat := match m with
          | .average => rabs (x - (p + q) / 2)
          | .differential =>
            if (x - p) * (q - x) < 0 then lo2 (rabs (x - p)) (rabs (q - x)) else 0
        if (match fail with | some f => decide (f < d) | none => false) then [.fail]
        else if (match sus with | some s => decide (s < d) | none => false) then [.suspect]
        else [.good]
      | _, _ => anyFlag

def spikeSpec (method : String) (sus fail : Option Rat) (inp : List V) : SpecOut :=
  if method = "average" then .flags ((List.range inp.length).map (spikeSpecAt .average sus fail inp))
  else if method = "differential" then
    .flags ((List.range inp.length).map (spikeSpecAt .differential sus fail inp))
  else .reject (some .value)

/-! ### C10 — rate of change, speed -/

def elapsed (ts : List Int) (i : Nat) : Rat := ((ts.getD i 0 - ts.getD (i - 1) 0 : Int) : Rat)

def rocSpecAt (thr : Rat) (xs : List V) (ts : List Int) (i : Nat) : List Flag :=
  match getV xs i with
  | none => [.missing]
  | some b =>
    if i = 0 then [.good]
    else match getV xs (i - 1) with
      | none => [.good]
      | some a => if thr < rabs (b - a) / elapsed ts i then [.suspect] else [.good]

def rocSpec (inp : List V) (ts : List Int) (thr : Rat) : SpecOut :=
  if inp.length != ts.length then .reject (some .value)
  else .flags ((List.range inp.length).map (rocSpecAt thr inp ts))

def fullPos (lon lat : List V) (i : Nat) : Bool := (getV lon i).isSome && (getV lat i).isSome

def speedSpecAt (sus fail : Rat) (lon lat : List V) (ts : List Int) (hops : List V) (i : Nat) : List Flag :=
  if i = 0 then
    (if (getV lon 0).isNone && (getV lat 0).isNone then [.unknown, .missing] else [.unknown])
  else if fullPos lon lat i && fullPos lon lat (i - 1) then
    (match getV hops (i - 1) with
     | some d =>
       let v := d / elapsed ts i
       if fail < v then [.fail] else if sus < v then [.suspect] else [.good]
     | none => anyFlag)
  else if (getV lon i).isNone && (getV lat i).isNone then [.missing, .unknown]
  else anyFlag

def speedSpec (lon lat : List V) (ts : List Int) (sus fail : Rat) (hops : List V) : SpecOut :=
  if lon.length != lat.length || lon.length != ts.length then .reject (some .value)
  else .flags ((List.range lon.length).map (speedSpecAt sus fail lon lat ts hops))

/-! ### C11 — flat line -/

/-- All steps equal to `D`. -/
def regularStep (ts : List Int) (D : Int) : Bool := (diffs ts).all (· == D)

/-- Range of the present values among the `k+1` points ending at `i` is strictly below `tol`. -/
def flatWindowBelow (xs : List V) (k : Nat) (tol : Rat) (i : Nat) : Bool :=
  decide (k ≤ i) &&
  (match present (windowEnding xs i k) with
   | [] => false
   | v :: vs => decide ((vs.foldl rmax v) - (vs.foldl rmin v) < tol))

def flatSpecAt (regular : Option Int) (sus fail tol : Rat) (xs : List V) (i : Nat) : List Flag :=
  match getV xs i with
  | none => [.missing]
  | some _ =>
    if xs.length < 3 then [.good]
    else match regular with
      | none => [.good, .suspect, .fail]
      | some D =>
        if flatWindowBelow xs ((fail / (D : Rat)).floor.toNat) tol i then [.fail]
        else if flatWindowBelow xs ((sus / (D : Rat)).floor.toNat) tol i then [.suspect]
        else [.good]

def flatSpec (inp : List V) (ts : List Int) (sus fail tol : Rat) : SpecOut :=
  let reg : Option Int :=
    match diffs ts with
    | [] => none
    | D :: _ => if regularStep ts D && decide (1 ≤ D) then some D else none
  .flags ((List.range inp.length).map (flatSpecAt reg sus fail tol inp))

/-! ### C12 — attenuated signal -/

def attenSpecAt (s : Stat) (sus fail : Rat) (x : V) : List Flag :=
  match x with
  | none => [.missing]
  | some _ =>
    if s.isUndef then [.unknown]
    else if s.lt fail then [.fail]
    else if s.lt sus then [.suspect]
    else [.good]

def attenSpec (checkType : String) (inp : List V) (ts : List Int) (sus fail : Rat)
    (period : Option Rat) (minObs : Option Nat) (minPeriod : Option Rat) : SpecOut :=
  match (if checkType = "std" then some CheckType.std
         else if checkType = "range" then some CheckType.range else none) with
  | none => .reject (some .value)
  | some ct =>
    match period with
    | none => .flags (inp.map (attenSpecAt (wholeStat ct inp) sus fail))
    | some P =>
      let minp := max (attenMinp minObs minPeriod ts) 1
      .flags ((List.range inp.length).map fun i =>
        attenSpecAt (windowStat ct minp inp ts P i) sus fail (getV inp i))

/-! ### C13 — density inversion, pressure increasing -/

def pairBelow (rho z : List V) (thr : Rat) (j : Nat) : Bool :=
  match getV rho j, getV rho (j + 1), getV z j, getV z (j + 1) with
  | some r0, some r1, some z0, some z1 =>
    -- density change in the direction of increasing depth, zero at constant depth
    let change : Rat := if z0 < z1 then r1 - r0 else if z1 < z0 then r0 - r1 else 0
    decide (change < thr)
  | _, _, _, _ => false

def inPairBelow (rho z : List V) (thr : Option Rat) (i : Nat) : Bool :=
  match thr with
  | none => false
  | some θ => (decide (i + 1 < rho.length) && pairBelow rho z θ i) ||
              (decide (0 < i) && pairBelow rho z θ (i - 1))

def densSpecAt (sus fail : Option Rat) (rho z : List V) (i : Nat) : List Flag :=
  if rho.length = 1 then [.unknown, .missing]
  else if recMissing rho z i || (decide (0 < i) && recMissing rho z (i - 1)) then [.missing]
  else if inPairBelow rho z fail i then [.fail]
  else if inPairBelow rho z sus i then [.suspect]
  else [.good]

def densSpec (rho z : List V) (sus fail : Option Rat) : SpecOut :=
  if rho.length != z.length then .reject none
  else .flags ((List.range rho.length).map (densSpecAt sus fail rho z))

/-- Overall direction of a profile with no missing value: sign of `p_last − p_first`
    (= sign of the mean step). -/
def pressSpecAt (p : List V) (i : Nat) : List Flag :=
  if p.any Option.isNone then [.good, .suspect]
  else if i = 0 then [.good]
  else
    match p.head?.join, p.getLast?.join, getV p (i - 1), getV p i with
    | some first, some last, some a, some b =>
      if first < last then (if a < b then [.good] else [.suspect])
      else if last < first then (if b < a then [.good] else [.suspect])
      else [.good, .suspect]          -- no overall direction: the property does not decide
    | _, _, _, _ => [.good, .suspect]

/-! ### All tests -/

def TestCall.spec (periodOf : Period → Int → Int) : TestCall → SpecOut
  | .gross f s inp => grossSpec f s inp
  | .valid lo hi si ei inp => .flags (inp.map (validSpecAt lo hi si ei))
  | .location lon lat b r h => locSpec lon lat b r h
  | .climatology ms inp t z =>
      .flags ((List.range inp.length).map fun i =>
        climSpecAt periodOf ms (t.getD i 0) (getV inp i) (getV z i))
  | .spike m s f inp => spikeSpec m s f inp
  | .roc inp t thr => rocSpec inp t thr
  | .flatLine inp t s f tol => flatSpec inp t s f tol
  | .attenuated ct inp t s f p mo mp => attenSpec ct inp t s f p mo mp
  | .density rho z s f => densSpec rho z s f
  | .pressure p => .flags ((List.range p.length).map (pressSpecAt p))
  | .speed lon lat t s f h => speedSpec lon lat t s f h

end IoosQc
