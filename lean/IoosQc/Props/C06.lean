/-
  C06 — collected results put every context's flags back on the right input rows.
  Written from the property text: a row covered by a context's window carries the value that
  context produced for it (its rank among the context's rows), an uncovered row is masked in the
  list form and UNKNOWN in the dict form.
-/
import IoosQc.Model.Results

namespace IoosQc

/-- Number of selected rows strictly before row `i`. -/
def rankAt (mask : List Bool) (i : Nat) : Nat := (mask.take i).count true

/-- The value piece `p` holds for input row `i`, if it covers that row. -/
def Piece.valueAt (p : Piece) (i : Nat) : Option Int :=
  if p.mask.getD i false then p.vals[rankAt p.mask i]? else none

/-- The value the collected column must carry at row `i`: that of the covering context
    (the last one in yield order should several cover the row — outside the property's domain of
    disjoint windows). -/
def coveredValue (ps : List Piece) (i : Nat) : Option Int := (ps.filterMap (·.valueAt i)).getLast?

/-- Well-formed pieces: mask over all `n` rows, one value per selected row. -/
def Piece.wf (n : Nat) (p : Piece) : Bool := p.mask.length == n && p.vals.length == p.mask.count true

/-- Masks of two pieces never select the same row. -/
def disjointMasks (a b : List Bool) : Bool := (List.zipWith (fun x y => x && y) a b).all (!·)

def pairwiseDisjoint : List Piece → Bool
  | [] => true
  | p :: ps => ps.all (fun q => disjointMasks p.mask q.mask) && pairwiseDisjoint ps

/-- Observation of the list form for one column: must equal the covered value on covered rows;
    `strictUncovered` (the flag column) also demands masked entries on uncovered rows. -/
def C06.columnOk (n : Nat) (ps : List Piece) (strictUncovered : Bool) (obs : List (Option Int)) : Bool :=
  obs.length == n &&
  (List.range n).all fun i =>
    match coveredValue ps i with
    | some v => obs.getD i none == some v
    | none => !strictUncovered || obs.getD i (some 0) == none

/-- Observation of the dict form for the flag column. -/
def C06.dictOk (n : Nat) (ps : List Piece) (obs : List Int) : Bool :=
  obs.length == n &&
  (List.range n).all fun i => obs.getD i 0 == (coveredValue ps i).getD 2

end IoosQc
