/-
  C20 — limit expressions evaluate to their ordinary arithmetic value, independent of any
  expression evaluated or rejected before; the validator accepts exactly the specifications
  whose space-separated tokens are numbers, statistics, operators or parentheses.
-/
import IoosQc.Model.Fx

namespace IoosQc

/-- Observation of `eval_fx` / `QcVariableConfig`: a value, or an exception. -/
inductive FxObs where
  | value (v : Rat)
  | error (e : Err)
  deriving Repr, DecidableEq, Inhabited

/-- The property for one evaluation: the ordinary arithmetic value, whatever came before;
    division by zero is an error. -/
def C20.holdsEval (st : Stats) (e : Expr) (o : FxObs) : Bool :=
  match e.eval st, o with
  | some v, .value w => decide (v = w)
  | none, .error _ => true
  | _, _ => false

def evalFxObs (st : Stats) (pre : List Tok) (e : Expr) : FxObs :=
  match evalFx st pre e with
  | some v => .value v
  | none => .error .other

/-- The property for the validator: accepted iff every token is allowed; rejection is a
    ValueError. -/
def C20.holdsValid (spec : String) (accepted : Bool) (err : Option Err) : Bool :=
  if validFx spec then accepted && err.isNone
  else !accepted && err == some .value

end IoosQc
