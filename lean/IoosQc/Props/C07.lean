/-
  C07 — every equivalent spelling of a configuration yields the same set of calls.
  A configuration is given here in *typed* normal form (contexts → streams → modules → tests);
  the four layouts are functions from that normal form to the tree the user writes; the property
  says `Config` exposes exactly one call per configured (stream id, module, test) that names an
  existing function, with the configured parameters, window and region.
-/
import IoosQc.Model.Config

namespace IoosQc

structure NTest where
  name : String
  kwargs : J              -- mapping of parameters, or `null` (no parameters)
  deriving Repr, Inhabited

structure NModule where
  name : String
  tests : List NTest
  deriving Repr, Inhabited

structure NStream where
  id : String
  modules : List NModule
  deriving Repr, Inhabited

structure NCtx where
  window : J              -- `null` or a mapping with `starting` / `ending`
  region : J              -- `null` or the GeoJSON mapping as written
  regionSeen : J          -- how the parsed region is observed (harness-computed canonical form)
  streams : List NStream
  deriving Repr, Inhabited

/-! ### What the property demands -/

def NCtx.regionObserved (c : NCtx) : J :=
  match c.region with
  | .null => .null
  | r => if r.has "features" || r.has "geometry" then c.regionSeen else .null

/-- One call per configured (stream, module, test) naming an existing function. -/
def NCtx.spec (known : String → String → Bool) (c : NCtx) : List CallSpec :=
  c.streams.flatMap fun s =>
    s.modules.flatMap fun m =>
      m.tests.filterMap fun t =>
        if known m.name t.name then
          some ⟨s.id, m.name, t.name, orEmpty t.kwargs, c.window, c.regionObserved⟩
        else none

def specCalls (known : String → String → Bool) (cs : List NCtx) : List CallSpec := cs.flatMap (NCtx.spec known)

/-! ### The four layouts -/

def NModule.toJ (m : NModule) : String × J := (m.name, .obj (m.tests.map fun t => (t.name, t.kwargs)))
def NStream.toJ (s : NStream) : String × J := (s.id, .obj (s.modules.map NModule.toJ))
def streamsJ (ss : List NStream) : J := .obj (ss.map NStream.toJ)
def modulesJ (ms : List NModule) : J := .obj (ms.map NModule.toJ)

def NCtx.toJ (c : NCtx) : J :=
  .obj ((match c.window with | .null => [] | w => [("window", w)]) ++
        (match c.region with | .null => [] | r => [("region", r)]) ++
        [("streams", streamsJ c.streams)])

def contextsJ (cs : List NCtx) : J := .obj [("contexts", .arr (cs.map NCtx.toJ))]

inductive Layout where | contexts | context | streams | modules
  deriving Repr, DecidableEq, Inhabited

/-- The tree a user writes for configuration `cs` in the given layout, when expressible. -/
def layoutJ (l : Layout) (cs : List NCtx) : Option J :=
  match l, cs with
  | .contexts, cs => some (contextsJ cs)
  | .context, [c] => some c.toJ
  | .streams, [c] => (match c.window, c.region with | .null, .null => some (streamsJ c.streams) | _, _ => none)
  | .modules, [c] =>
    (match c.window, c.region, c.streams with
     | .null, .null, [s] => some (modulesJ s.modules)
     | _, _, _ => none)
  | _, _ => none

/-- What the calls look like when the bare module mapping is bound to the default stream id. -/
def rebindDefault (l : Layout) (defaultKey : String) (cs : List NCtx) : List NCtx :=
  match l with
  | .modules => cs.map fun c => { c with streams := c.streams.map fun s => { s with id := defaultKey } }
  | _ => cs

/-- Multiset equality of call lists (order of `Config.calls` is not part of the property). -/
def removeFirst (p : CallSpec → Bool) : List CallSpec → Option (List CallSpec)
  | [] => none
  | x :: xs => if p x then some xs else (removeFirst p xs).map (x :: ·)

def sameCalls : List CallSpec → List CallSpec → Bool
  | [], ys => ys.isEmpty
  | x :: xs, ys => match removeFirst (CallSpec.beq x) ys with
                   | some ys' => sameCalls xs ys'
                   | none => false

def C07.holds (known : String → String → Bool) (l : Layout) (defaultKey : String) (cs : List NCtx)
    (obs : List CallSpec) : Bool :=
  sameCalls (specCalls known (rebindDefault l defaultKey cs)) obs

/-! ### Well-formedness: the domain of the property -/

def isParamMapping (j : J) : Bool :=
  match j with
  | .null => true
  | .obj kvs => kvs.all fun p => p.2.depth == 0     -- scalar / list parameters (lists may hold mappings)
  | _ => false

def reserved (k : String) : Bool := k == "contexts" || k == "streams"

def NStream.wf (s : NStream) : Bool :=
  !reserved s.id && s.modules.all fun m => !reserved m.name && m.tests.all fun t => isParamMapping t.kwargs

/-- Some test carries a parameter mapping, possibly empty (what makes a bare stream mapping four
    levels deep; its absence — every test written without parameters — is the class of known
    finding F-09). -/
def hasParams (ss : List NStream) : Bool :=
  ss.any fun s => s.modules.any fun m => m.tests.any fun t =>
    match t.kwargs with | .obj _ => true | _ => false

def noDupKeys (ss : List NStream) : Bool :=
  (ss.map (·.id)).Nodup && ss.all fun s => (s.modules.map (·.name)).Nodup && s.modules.all fun m => (m.tests.map (·.name)).Nodup

def C07.inDom (l : Layout) (cs : List NCtx) : Bool :=
  cs.all (fun c => c.streams.all NStream.wf && noDupKeys c.streams) && (layoutJ l cs).isSome &&
  (match l with
   | .streams => cs.all fun c => hasParams c.streams
   | _ => true)

end IoosQc
