/-
  C15 — flags do not depend on how the same series and times are represented.
  On observations: every carrier's observation conforms to the specification of the one logical
  call, and all observations are identical.
-/
import IoosQc.Model.Carrier
import IoosQc.Props.Domain

namespace IoosQc

def C15.holds (periodOf : Period → Int → Int) (c : TestCall) (obs : List Obs) : Bool :=
  obs.all (fun o => conforms (c.spec periodOf) o) &&
  (match obs with
   | [] => true
   | o :: rest => rest.all (fun o' => decide (o' = o)))

end IoosQc
