/-
  IoosQc.Props.Domain — the input domain the properties quantify over, as one decidable
  predicate per test call.  Outside it the driver answers `in_dom = false` and no verdict is
  drawn (the generators are written to stay inside; the driver re-checks).
-/
import IoosQc.Props.Spec

namespace IoosQc

/-- Strictly increasing whole-second time axis. -/
def increasing (ts : List Int) : Bool := (diffs ts).all fun d => decide (0 < d)

def isInt (q : Rat) : Bool := q.den == 1

def hopsOk (n : Nat) (hops : List V) : Bool :=
  hops.length + 1 == max n 1 && hops.all fun h => match h with | some d => decide (0 ≤ d) | none => true

/-- A hop distance is supplied whenever all four coordinates of the hop are present. -/
def hopsExact (lon lat hops : List V) : Bool :=
  (List.range (lon.length - 1)).all fun j =>
    !(getV hops j).isNone ||
      ((getV lon j).isNone || (getV lat j).isNone || (getV lon (j + 1)).isNone || (getV lat (j + 1)).isNone)

/-- The supplied hop distances are missing exactly where one of the hop's four coordinates is
    (the harness computes them that way; the geodesic routine itself is outside the model). -/
def hopsConsistent (lon lat hops : List V) : Bool :=
  ((List.range hops.length).all fun j =>
    !((getV lon j).isNone || (getV lat j).isNone || (getV lon (j + 1)).isNone || (getV lat (j + 1)).isNone)
      || (getV hops j).isNone) && hopsExact lon lat hops

/-- Spans of a climatology member are sorted, as `ClimatologyConfig.add` stores them. -/
def memberSorted (m : Member) : Bool :=
  decide (m.tspan.1 ≤ m.tspan.2) && decide (m.vspan.1 ≤ m.vspan.2) &&
  (match m.fspan with | some f => decide (f.1 ≤ f.2) | none => true) &&
  (match m.zspan with | some z => decide (z.1 ≤ z.2) | none => true)

def TestCall.inDom : TestCall → Bool
  | .gross _ _ _ => true
  | .valid _ _ _ _ _ => true
  | .location lon lat _ r hops =>
      (lon.length != lat.length || hopsOk lon.length hops) && hopsConsistent lon lat hops &&
      (match r with | some q => decide (0 ≤ q) | none => true)
  | .climatology ms inp t z => inp.length == t.length && inp.length == z.length && ms.all memberSorted
  | .spike _ _ _ _ => true
  | .roc inp t thr => (inp.length != t.length || increasing t) && decide (0 ≤ thr)
  | .flatLine inp t s f _ =>
      inp.length == t.length && increasing t && decide (0 ≤ s) && decide (0 ≤ f)
  | .attenuated _ inp t _ _ p mo mp =>
      inp.length == t.length && increasing t &&
      (match p with | some q => decide (0 < q) | none => true) &&
      (match mo, mp with
       | some _, some _ => false
       | _, some q => decide (0 ≤ q) && decide (2 ≤ inp.length)
       | _, none => true)
  | .density _ _ _ _ => true
  | .pressure _ => true
  | .speed lon lat t _ _ hops =>
      ((lon.length != lat.length || lon.length != t.length) || (increasing t && hopsOk lon.length hops)) &&
      hopsConsistent lon lat hops

end IoosQc
