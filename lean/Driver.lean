/-
  Driver — one JSON request per line on stdin, one JSON answer per line on stdout.
  Evaluates the model and the property predicates (the very definitions the theorems in
  IoosQc/Theorems are about) on the case and on the observation of the real code.
-/
import IoosQc.Wire
import IoosQc.Props.C01C02
import IoosQc.Handlers

open Lean IoosQc IoosQc.Wire

def handle (j : Json) : Except String Json := do
  let kind ← field j "kind" >>= asStr
  let body ← IoosQc.Handlers.dispatch kind j
  let id := (j.getObjVal? "id").toOption.getD Json.null
  pure (body.setObjVal! "id" id)

partial def loop (hin : IO.FS.Stream) (hout : IO.FS.Stream) : IO Unit := do
  let line ← hin.getLine
  if line.isEmpty then return ()
  let line := line.trimAscii.toString
  if line.isEmpty then loop hin hout else
  let out : Json :=
    match Json.parse line with
    | .error e => Json.mkObj [("driver_error", Json.str s!"parse: {e}")]
    | .ok j =>
      match handle j with
      | .ok r => r
      | .error e =>
        let id := (j.getObjVal? "id").toOption.getD Json.null
        Json.mkObj [("driver_error", Json.str e), ("id", id)]
  hout.putStrLn out.compress
  loop hin hout

def main : IO Unit := do
  let hin ← IO.getStdin
  let hout ← IO.getStdout
  loop hin hout
  hout.flush
