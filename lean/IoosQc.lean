import IoosQc.Model.Basic
import IoosQc.Model.Tests
import IoosQc.Model.Calendar
import IoosQc.Props.Spec
import IoosQc.Props.Domain
import IoosQc.Props.C01C02
import IoosQc.Lemmas.Basic
import IoosQc.Theorems.C03
