#!/bin/sh
# Build the Lean library (model, theorems) and the compiled driver; offline, from files on disk.
cd "$(dirname "$0")/lean" || exit 2
lake build 2>&1 | tail -5
test -x .lake/build/bin/driver || { echo "driver not built"; exit 1; }
cd .. && PYTHONDONTWRITEBYTECODE=1 /venv/bin/python -c "
import sys; sys.path.insert(0,'harness')
import engine
a = engine.lean_build_and_audit()
print('build_ok', a['build_ok'], 'audit_ok', a['audit_ok'], 'theorems', len(a['theorems']), 'forbidden', a['forbidden'])
sys.exit(0 if a['build_ok'] and a['audit_ok'] and not a['forbidden'] else 1)
"
