#!/bin/sh
# tools/eval_harmless.sh [patch ...] — every behaviour-preserving patch of harmless/ (or the given ones) through all twenty quick
# checks, on scratch worktrees; every check must stay silent.  Meant for `vp run -- tools/eval_harmless.sh` (snapshot of /verif).
cd "$(dirname "$0")/.." || exit 2
./setup.sh > /dev/null 2>&1 || { echo "setup failed"; exit 2; }
mkdir -p out
[ $# -eq 0 ] && set -- $(ls harmless/*.diff | xargs -n1 basename | sed 's/\.diff$//')
printf '%s\n' "$@" | xargs -P ${HP:-4} -I{} sh -c 'tools/try_patch_wt.sh harmless/{}.diff > out/H_{}.txt 2>&1'
bad=0
for s in "$@"; do
  if grep -v "exit=0 0 viol" out/H_$s.txt | grep -q "exit="; then echo "== $s ALARMS"; grep -v "exit=0 0 viol" out/H_$s.txt; bad=1; else echo "== $s silent"; fi
done
exit $bad
