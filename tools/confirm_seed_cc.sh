#!/bin/sh
# tools/confirm_seed_cc.sh <NAME> — like confirm_seed.sh for changes under ioos_qc/config_creator: the suite is the
# config-creator / config / qartod test files, of which 8 TestQartodConfigurator tests fail in this sandbox with or
# without any change (emptied data files); the change is confirmed when exactly those 8 fail.
NAME="$1"; WT="/tmp/wt_$NAME"
cd "$WT" || exit 2
export PYTHONDONTWRITEBYTECODE=1 PYTHONPATH="$WT"
git diff -- ioos_qc > /tmp/confirm_$NAME.diff
[ -s /tmp/confirm_$NAME.diff ] || { echo "$NAME: no change applied"; exit 1; }
/venv/bin/python _seed/demo.py > /tmp/confirm_$NAME.with.log 2>&1; WITH=$?
git checkout -q -- ioos_qc
/venv/bin/python _seed/demo.py > /tmp/confirm_$NAME.without.log 2>&1; WITHOUT=$?
git apply /tmp/confirm_$NAME.diff || exit 1
/venv/bin/python -m pytest -q -p no:cacheprovider tests/test_config_creator.py tests/test_config.py tests/test_qartod.py tests/test_streams.py tests/test_argo.py tests/test_axds.py > /tmp/confirm_$NAME.suite.log 2>&1
TAIL="$(tail -1 /tmp/confirm_$NAME.suite.log)"
echo "$NAME: demo with change exit=$WITH (want !=0), without exit=$WITHOUT (want 0), suite :: $TAIL"
case "$TAIL" in "8 failed, 100 passed"*) SUITE=0;; *) SUITE=1;; esac
if [ "$WITH" != 0 ] && [ "$WITHOUT" = 0 ] && [ "$SUITE" = 0 ]; then
  mkdir -p /verif/seeded/$NAME
  cp /tmp/confirm_$NAME.diff /verif/seeded/$NAME/patch.diff; cp _seed/demo.py /verif/seeded/$NAME/demo.py; cp _seed/README.md /verif/seeded/$NAME/README.md 2>/dev/null
  echo "$NAME: confirmed -> /verif/seeded/$NAME"
else echo "$NAME: NOT confirmed"; exit 1; fi
