#!/usr/bin/env python3
"""tools/mk_seed_prompts.py <round> <PROP>...  — writes /tmp/seedprompts/<round><A..>.txt, one prompt per property, for fresh
sub-agents that author property-breaking changes.  Each prompt holds ONLY the property's text, the location of the agent's own
scratch worktree (tools/mk_seed_wt.sh) and the list of mechanisms earlier seeds of that property used (from seeded/*/meta.json) —
nothing else from /verif."""
import collections
import glob
import json
import sys
from pathlib import Path

ROOT = Path(__file__).resolve().parent.parent
TEMPLATE = """You are helping to evaluate a verification framework for the Python library ioos_qc (IOOS QARTOD oceanographic quality-control: vectorised numpy flagging tests, config parsing, stream/store adapters). Your job is to write ONE realistic, subtle, property-breaking change ("seeded bug") to the library.

Your private scratch git worktree of the library is /tmp/wt_{name} (work ONLY there; never touch /repo or /verif, and never read anything under /verif). Python: /venv/bin/python with PYTHONPATH=/tmp/wt_{name} and PYTHONDONTWRITEBYTECODE=1 (so that the worktree's ioos_qc is the one imported — check `ioos_qc.__file__`).

THE PROPERTY your change must break (this is all you are told about the verification):

  id: {pid}
  title: {title}
  statement: {statement}
  quantifier: {quantifier}

Requirements for the change:
 1. It edits only files under /tmp/wt_{name}/ioos_qc/ (library source; no tests, no new dependencies), and looks like something a maintainer could plausibly write (a refactoring, an optimisation, a "clean-up", a cache, a reordering, a generalisation) — not an obviously planted bug. Keep it small (ideally < 40 changed lines).
 2. The library still imports, and the existing test suite still passes with it:
      cd /tmp/wt_{name} && PYTHONPATH=/tmp/wt_{name} PYTHONDONTWRITEBYTECODE=1 /venv/bin/python -m pytest -q -p no:cacheprovider -x tests/test_qartod.py tests/test_argo.py tests/test_axds.py tests/test_streams.py tests/test_config.py tests/test_config_deprecated.py tests/test_performance.py
    (about 60-100 s; other test files need network data and are not relevant).
 3. It makes the property FALSE for some inputs, but needs something SPECIFIC to manifest: an unusual input form or value relation, a multi-step sequence of calls, object re-use, a particular ordering, or two cooperating code sites that each look fine alone. Ordinary use must NOT expose it at once.
 4. It must use a DIFFERENT mechanism from all of these earlier seeded changes for this property (do not repeat them or trivial variants):
{used}
 5. The violation must be a violation of the property AS STATED above, on inputs inside the property's stated domain (e.g. valid parameters, one-dimensional series, documented input forms). Do not rely on inputs the property excludes.

Deliverables, all inside /tmp/wt_{name}/_seed/ (the directory exists):
  - demo.py : a small standalone program (run as `/venv/bin/python _seed/demo.py` from /tmp/wt_{name} with PYTHONPATH=/tmp/wt_{name}) that exits 0 on the ORIGINAL code and exits non-zero (assertion failure) WITH your change, by checking the property on the specific input/sequence that exposes it. The demo must state expected values derived from the property text, not from the old implementation's output.
  - README.md : what the change is, why it looks innocent, exactly what is needed for it to manifest, and which sentence of the property it violates.
Leave your change APPLIED (uncommitted) in the worktree when you finish (so that `git diff -- ioos_qc` shows it). Verify yourself: demo fails with the change; save your change with `git diff -- ioos_qc > /tmp/{name}_my.patch`, undo it with `git apply -R /tmp/{name}_my.patch`, check that the demo passes, restore it with `git apply /tmp/{name}_my.patch` (do NOT use `git stash`: the stash is shared by all worktrees of the repository and other agents work in parallel); suite passes with the change.

Final answer: a 5-line summary (file/function changed, mechanism, what it needs to manifest, demo result with/without, suite result)."""


def main():
    rnd, props_wanted = sys.argv[1], sys.argv[2:]
    by = collections.defaultdict(list)
    for f in sorted(glob.glob(str(ROOT / "seeded/*/meta.json"))):
        m = json.load(open(f))
        p = m.get("breaks_property")
        for q in (p if isinstance(p, list) else [p]):
            for qq in str(q).replace("/", ",").split(","):
                by[qq.strip()[:3]].append(m.get("change", "")[:220])
    props = {json.loads(line)["id"]: json.loads(line) for line in open(ROOT / "properties.jsonl")}
    out = Path("/tmp/seedprompts")
    out.mkdir(exist_ok=True)
    for i, pid in enumerate(props_wanted):
        name = f"{rnd}{chr(ord('A') + i)}"
        p = props[pid]
        (out / f"{name}.txt").write_text(TEMPLATE.format(name=name, pid=pid, title=p["title"], statement=p["statement"],
                                                         quantifier=p["quantifier"]["text"], used="\n".join(f"  - {c}" for c in by.get(pid, []))))
        print(name, pid)


if __name__ == "__main__":
    main()
