#!/bin/sh
# tools/run_all.sh [quick|thorough] [seed] — every check once, sequentially four at a time; prints the verdict line of each.
cd "$(dirname "$0")/.." || exit 2
TIER="${1:-quick}"; export VERIF_SEED="${2:-0}"
./setup.sh > /dev/null 2>&1 || { echo "setup failed"; exit 2; }
mkdir -p out
for i in 01 02 03 04 05 06 07 08 09 10 11 12 13 14 15 16 17 18 19 20; do echo C$i; done | \
  xargs -P 4 -I{} sh -c "./check {} --tier $TIER > out/{}.$TIER.log 2>&1; echo \"{} exit=\$? \$(grep -c '^VIOLATION' out/{}.$TIER.log) violation line(s) :: \$(tail -1 out/{}.$TIER.log)\""
