#!/bin/sh
# tools/try_patch.sh <patch.diff> [PROP ...]   — apply a seeded change to /repo, run the quick
# checks (all twenty by default), always restore /repo afterwards.  Prints one line per check.
PATCH="$(readlink -f "$1")"; shift
cd "$(dirname "$0")/.." || exit 2
[ -n "$(git -C /repo status --porcelain --untracked-files=no)" ] && { echo "/repo is not clean"; exit 2; }
trap 'git -C /repo checkout -- . ; echo "(/repo restored)"' EXIT INT TERM
git -C /repo apply "$PATCH" || { echo "patch does not apply"; exit 2; }
PROPS="$*"
[ -z "$PROPS" ] && PROPS="C01 C02 C03 C04 C05 C06 C07 C08 C09 C10 C11 C12 C13 C14 C15 C16 C17 C18 C19 C20"
for p in $PROPS; do
  ./check "$p" --tier "${VERIF_TIER:-quick}" > "/tmp/try_$p.log" 2>&1
  rc=$?
  echo "$p exit=$rc $(grep -c '^VIOLATION' /tmp/try_$p.log) violation line(s) :: $(grep '^VIOLATION' /tmp/try_$p.log | head -1)"
done
rm -f replays/*.json
