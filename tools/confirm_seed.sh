#!/bin/sh
# tools/confirm_seed.sh <PROP> [name]  — confirm a sub-agent's seeded change in its scratch worktree
# /tmp/wt_<PROP>: demo fails with the change, passes without, existing suite passes with it.
# On success copies patch.diff / demo.py / README.md to /verif/seeded/<name>/.
P="$1"; NAME="${2:-$1}"; WT="${SEED_WT:-/tmp/wt_$P}"
cd "$WT" || exit 2
export PYTHONDONTWRITEBYTECODE=1 PYTHONPATH="$WT"
git diff -- ioos_qc > /tmp/confirm_$P.diff
[ -s /tmp/confirm_$P.diff ] || { echo "$P: no change applied in worktree"; exit 1; }
/venv/bin/python _seed/demo.py > /tmp/confirm_$P.with.log 2>&1; WITH=$?
git checkout -q -- ioos_qc
/venv/bin/python _seed/demo.py > /tmp/confirm_$P.without.log 2>&1; WITHOUT=$?
git apply /tmp/confirm_$P.diff || { echo "$P: cannot re-apply"; exit 1; }
/venv/bin/python -m pytest -q -p no:cacheprovider -x tests/test_qartod.py tests/test_argo.py tests/test_axds.py tests/test_streams.py tests/test_config.py tests/test_config_deprecated.py tests/test_performance.py > /tmp/confirm_$P.suite.log 2>&1; SUITE=$?
echo "$P: demo with change exit=$WITH (want !=0), without exit=$WITHOUT (want 0), suite exit=$SUITE (want 0) :: $(tail -1 /tmp/confirm_$P.suite.log)"
if [ "$WITH" != 0 ] && [ "$WITHOUT" = 0 ] && [ "$SUITE" = 0 ]; then
  mkdir -p /verif/seeded/$NAME
  cp /tmp/confirm_$P.diff /verif/seeded/$NAME/patch.diff
  cp _seed/demo.py /verif/seeded/$NAME/demo.py
  cp _seed/README.md /verif/seeded/$NAME/README.md 2>/dev/null
  echo "$P: confirmed -> /verif/seeded/$NAME"
else
  echo "$P: NOT confirmed"; exit 1
fi
