#!/bin/sh
# tools/mk_seed_wt.sh <NAME>... — scratch worktree /tmp/wt_<NAME> of /repo HEAD with an empty _seed/ directory
for N in "$@"; do
  WT="/tmp/wt_$N"
  [ -d "$WT" ] && git -C /repo worktree remove --force "$WT"
  git -C /repo worktree add -q --detach "$WT" HEAD || exit 2
  mkdir -p "$WT/_seed"
  echo "$WT"
done
