#!/bin/sh
# tools/try_patch_wt.sh <patch.diff> [PROP ...] — like try_patch.sh but on a scratch worktree of /repo
# (VERIF_REPO points the harness at it), so /repo itself is never touched.  Worktree removed afterwards.
PATCH="$(readlink -f "$1")"; shift
cd "$(dirname "$0")/.." || exit 2
WT="/tmp/repo_mut_$$"
git -C /repo worktree add -q "$WT" HEAD || exit 2
trap 'git -C /repo worktree remove --force "$WT"; rm -rf /tmp/trywt_ev_$$ /tmp/trywt_rp_$$; echo "(worktree removed)"' EXIT INT TERM
git -C "$WT" apply "$PATCH" || { echo "patch does not apply"; exit 2; }
PROPS="$*"
[ -z "$PROPS" ] && PROPS="C01 C02 C03 C04 C05 C06 C07 C08 C09 C10 C11 C12 C13 C14 C15 C16 C17 C18 C19 C20"
for p in $PROPS; do
  VERIF_REPO="$WT" VERIF_EVIDENCE_DIR="/tmp/trywt_ev_$$" VERIF_REPLAY_DIR="/tmp/trywt_rp_$$" ./check "$p" --tier "${VERIF_TIER:-quick}" > "/tmp/trywt_$$_$p.log" 2>&1
  rc=$?
  echo "$p exit=$rc $(grep -c '^VIOLATION' /tmp/trywt_$$_$p.log) violation line(s) :: $(grep '^VIOLATION' /tmp/trywt_$$_$p.log | head -1)"
done
