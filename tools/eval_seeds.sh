#!/bin/sh
# tools/eval_seeds.sh <seed-name>...  — run all twenty quick checks against each seeded change, on scratch worktrees of /repo.
# Meant for `vp run -- tools/eval_seeds.sh R14A R14B …` (a snapshot of the committed /verif: builds the Lean project there first),
# so that edits made to /verif meanwhile cannot disturb the evaluation.  Results: out/<seed>.txt in the snapshot (and on stdout).
cd "$(dirname "$0")/.." || exit 2
./setup.sh > /dev/null 2>&1 || { echo "setup failed"; exit 2; }
mkdir -p out
printf '%s\n' "$@" | xargs -P 4 -I{} sh -c 'tools/try_patch_wt.sh seeded/{}/patch.diff > out/{}.txt 2>&1'
for s in "$@"; do echo "== $s"; grep -v "exit=0 0 viol" out/$s.txt; done
